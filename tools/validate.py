#!/opt/veriftools/pyvenv/bin/python
import json, glob, sys, jsonschema
ok = True
jsonschema.validate(json.load(open('/verif/MANIFEST.json')), json.load(open('/root/.vp/MANIFEST.schema.json')))
es = json.load(open('/root/.vp/EVIDENCE.schema.json'))
for f in sorted(glob.glob('/verif/evidence/*.json')):
    try:
        jsonschema.validate(json.load(open(f)), es)
    except Exception as e:
        ok = False; print("INVALID", f, str(e)[:300])
m = json.load(open('/verif/MANIFEST.json'))
ids = {json.loads(l)['id'] for l in open('/verif/properties.jsonl')}
claimed = {c['property_id'] for c in m['checks']}
na = {c['property_id'] for c in m.get('not_applicable', [])}
print("claimed", sorted(claimed)); print("not_applicable", sorted(na)); print("unaccounted", sorted(ids - claimed - na))
print("valid" if ok else "INVALID")
