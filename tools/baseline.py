#!/usr/bin/env python3
"""Run the repository's pinned baseline suite (guard OFF) and compare the set of passing
tests with /root/.vp/BASELINE.json.  Exit 0 iff every stable-pass test still passes."""
import json, os, subprocess, sys
import xml.etree.ElementTree as ET
# optional argument: another checkout of the repository (a scratch worktree) instead of /repo
ROOT = sys.argv[1] if len(sys.argv) > 1 else "/repo"
base = json.load(open("/root/.vp/BASELINE.json"))
want = set(base["stable_pass"])
junit = ROOT + "/target/nextest/pb/junit.xml"
if os.path.exists(junit):
    os.remove(junit)
cmd = ("cd " + ROOT + " && cargo nextest run --workspace --no-fail-fast --tool-config-file pb:/w/lib/nextest.toml "
       "--profile pb --test-threads 8 --offline")
p = subprocess.run(cmd, shell=True, stdout=subprocess.PIPE, stderr=subprocess.STDOUT, text=True)
passed, failed = set(), set()
for tc in ET.parse(junit).getroot().iter("testcase"):
    tid = (tc.get("classname") or "") + "::" + (tc.get("name") or "")
    if tc.find("failure") is not None or tc.find("error") is not None or tc.find("flakyFailure") is not None:
        failed.add(tid)
    elif tc.find("skipped") is None:
        passed.add(tid)
passed -= failed
missing = sorted(want - passed)
print("passed now: %d, failed now: %d, baseline stable-pass: %d, missing from pass set: %d"
      % (len(passed), len(failed), len(want), len(missing)))
for m in missing[:40]:
    print("  MISSING", m)
sys.exit(1 if missing else 0)
