#!/bin/bash
# usage: confirm_seeded.sh <scratch-worktree> <out-dir>
# Confirms a sub-agent's change: the pinned suite stays green with it (tools/baseline.py <worktree>),
# its demo fails with the change and passes without it.  Leaves the worktree with the patch applied.
set -u
W=$1; O=$2
cd "$W" || exit 2
git diff --quiet && { echo "worktree has no change"; exit 2; }
git diff > /tmp/confirm-$$.diff
diff -q <(git diff) "$O/patch.diff" >/dev/null || echo "NOTE: patch.diff differs from the worktree diff (using the worktree diff)"
bash "$O/demo.sh" "$W" > "$O/confirm-with.log" 2>&1; with=$?
git apply -R /tmp/confirm-$$.diff || { echo "cannot revert"; exit 2; }
bash "$O/demo.sh" "$W" > "$O/confirm-without.log" 2>&1; without=$?
git apply /tmp/confirm-$$.diff || { echo "cannot re-apply"; exit 2; }
cp /tmp/confirm-$$.diff "$O/patch.diff"; rm -f /tmp/confirm-$$.diff
python3 /verif/tools/baseline.py "$W" > "$O/confirm-baseline.log" 2>&1; base=$?
echo "demo with change: exit $with ; without: exit $without ; baseline: exit $base ($(head -1 $O/confirm-baseline.log))"
[ $with -ne 0 ] && [ $without -eq 0 ] && [ $base -eq 0 ] && echo CONFIRMED || echo NOT-CONFIRMED
