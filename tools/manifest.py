#!/usr/bin/env python3
"""Regenerates /verif/MANIFEST.json from the table below (one entry per claimed property)."""
import json, os
V = "/verif"
props = [json.loads(l) for l in open(V + "/properties.jsonl")]
TB = ("Trusted: TLC and the CommunityModules JSON reader, the hand-written specification module(s), "
      "the harness's concretisation and comparison code.")
C = {}
def claim(pid, text, note, technique, ref):
    C[pid] = dict(text=text, note=note + " " + TB, technique=technique, ref=ref)

GEN = "TLA+ spec model-checked by TLC; TLC-generated cases replayed into the code; recorded traces validated by TLC"
claim("C16",
      "TLC checks on the Sanitizer specification that the pass machine meets the declarative run-based contract and every consequence listed in the property (alphabet, separators, zeros, length, idempotence) for all strings up to the bound and all 60 settings; every such string is replayed into Sanitizer::sanitize with the acceptable results computed by the specification, and recorded random-Unicode traces are validated by TLC event by event.",
      "Bounded: strings <= 4 (quick) / 5 (thorough) over a 9-symbol alphabet exhaustively; random Unicode up to 40 scalars beyond.",
      GEN, "DESIGN.md 5/C16")
claim("C08",
      "SemVerGrammar.tla states the semver.org BNF as predicates and as a character automaton; TLC shows them equal and that printing a parse gives the input back, on every string <= 5/6 over an 11-symbol alphabet and on all viable prefixes (with their dead one-symbol extensions) to length 8/10; every explored string is replayed into SemVer::from_str/to_string and `check --format semver`; long token-composed and mutated strings recorded from the code are judged by TLC.",
      "Bounded exhaustive enumeration plus seeded random long strings; numbers beyond u64 in the core may be rejected or preserved.",
      GEN, "DESIGN.md 5/C08")
claim("C09",
      "Pep440Grammar.tla states Appendix B as the set of all decompositions and as the leftmost-greedy parser; TLC shows they accept the same strings, that the greedy value is a decomposition and that the normal form is an accepted fixed point, on every string <= 5/6 over an 11-symbol alphabet; every string is replayed into PEP440::from_str/to_string/==/check; structured spellings and mutations recorded from the code are judged by TLC.",
      "Bounded exhaustive enumeration plus seeded structured/mutated strings; numbers beyond u32 may be rejected or preserved.",
      GEN, "DESIGN.md 5/C09")

claim("C10",
      "SemVerOrder.tla transcribes SemVer 2.0.0 section 11 on parsed values; TLC shows it reflexive, antisymmetric, total, transitive and 'equal iff same' on the stated universe, and emits one row per ordered pair (some with build metadata) that the harness replays through SemVer::from_str, Ord and PartialEq; random comparisons with numbers up to u64, sort() results and GitUtils::find_max_version_tag results recorded from the code are validated by TLC.",
      "Exhaustive over {0,1,2,10}^3 + 2 cores x identifier lists <= 2 (quick) / 3 (thorough) over {0 2 10 A a a0 B -}; random beyond.",
      GEN, "DESIGN.md 5/C10")
claim("C11",
      "Pep440Order.tla is the key fixed by the property; TLC shows the order laws, the pre < dev < final < post chain and spelling independence (each of three spellings of every universe value parses with Pep440Grammar to a key-equal value) on a 512-value universe, and emits one row per ordered pair in varied spellings for PEP440::from_str, Ord and PartialEq; random structured comparisons, sorts and max-tag selections recorded from the code are validated by TLC.",
      "Exhaustive over 2 epochs x 4 release shapes x 4 pre x 2 post x 2 dev x 4 local (262144 ordered pairs); random beyond.",
      GEN, "DESIGN.md 5/C11")
claim("C17",
      "Calendar.tla is a day-successor automaton (no civil-date formula shared with chrono); TLC walks all 84006 days to 2199-12-31 checking well-formedness and anchor dates and prints the 16 pattern values for selected days, which are compared with resolve_timestamp and, on month boundaries, with the CalVer presets, ts(<pattern>) components and the last_timestamp fallback through the version pipeline; random instants recorded under a non-UTC TZ are validated by a trace spec that walks the same automaton. A closed form (DaysFromCivil) is tied to the automaton on every day walked and validates the civil fields of recorded instants beyond it, up to 9999-12-31.",
      "Quick: every 7th day plus all month/year/leap/week boundaries (19935 days x 3 instants x 16 patterns); thorough: every day.",
      GEN, "DESIGN.md 5/C17")


claim("C05",
      "ZervModel.tla is `zerv version` as a state machine (validation, VCS overrides, clean, tag version, context control, schema choice, one step per precedence level with override / bump / reset-lower, one step per index-addressed operation, timestamp, normalise). TLC checks the action property 'no step changes a level above its own', the closed-form law of the property against the stepwise machine, 'errors give no result' and schema validity in three bounded argument spaces, and prints every behaviour; the harness replays each through clap and run_version_pipeline under two flag permutations and compares all variables and schema components; random runs recorded from the code are re-executed action by action by Trace_Zerv. Further argument spaces: custom precedence orders inside a RON schema, template-valued flag values resolved against the pre-bump state. The reset law itself is also decided without bounds on ResetLaw.tla (Apalache: action invariant from an arbitrary state for all integers; TLAPS: Spec => []WF and Spec => [][Law]_vars, 45 obligations; TLC links every ResetLaw transition to ZervOps!ProcByName) and, on decimal texts (BigNum.tla / Trace_BigBump), on recorded runs whose numbers lie between 2^31 and 2^64.",
      "Exhaustive in: all 3^7 (quick) / 4^7 (thorough) override-bump subsets x 3 label choices x 3 starts; 29k index-operation cases; 18k VCS/preset cases; order and template spaces. Random amounts up to 2^29 in the integer model, u64-range values in the text lane.",
      "TLA+ spec model-checked by TLC (+ Apalache symbolic check and TLAPS proof of the reset law); TLC-generated cases replayed into the code; recorded traces validated by TLC", "DESIGN.md 5/C05")


claim("C06",
      "Render.tla states the documented placement rules (first three integer-valued core components, flattening on '.', label.N expansions, PEP 440 slots, lower-cased local segment, unset variables contribute nothing); TLC grows every rule-conforming schema within the bounds, proves on the specification that each rendering is well-formed (grammar modules) and prints the expected strings; the harness builds each (schema, assignment) as a real Zerv object and compares SemVer::from / PEP440::from and the stdin pipeline in both formats; random schemas with Unicode text are recomputed by TLC. The smart-tier table of the standard and calver presets (and their -context / -no-context variants) is checked by MC_Zerv's tier mode composed with Render: for every dirty / distance / pre-release / post state the printed string is predicted.",
      "Exhaustive for <= 2(3)/2/1 components per section over 9/7/6-symbol component alphabets x 3 assignments; random up to 4 per section beyond.",
      GEN, "DESIGN.md 5/C06")


claim("C07",
      "Convert.tla states zerv's canonical SemVer shape and its PEP 440 image as the property gives them, with numerals of any size; TLC checks both texts against the grammar modules and prints every version in the bound; the harness runs `zerv render` in the four directions and checks: SemVer unchanged, the stated PEP 440 image, back to the original, every rendering a fixed point of re-conversion, and for numerals beyond u32/u64 rejection or preservation of every numeral. Arbitrary PEP 440 / SemVer / label-heavy inputs are converted and re-converted and judged by Trace_Convert with the grammar and order modules.",
      "Exhaustive over 16 shapes x small numbers in all slots x labels x build ids, boundary numerals in one slot at a time; random beyond.",
      GEN, "DESIGN.md 5/C07")


claim("C04",
      "Flow.tla composes two passes of the version machine (as-is pass, first-match branch rule, flag > rule > default resolution, guarded flow bumps, tag-mode dirty rule). TLC checks that the walk of pass two equals the component law stated by the property and that a clean tagged commit is unchanged, over tags x branch names (incl. release-1, releases, release/, nested and numeric segments) x distance x dirty flags x --post x explicit label/number/mode x hash lengths x rule sets x presets; every input is run through `zerv flow` and compared component by component (branch hash through its contract); random runs with Unicode and 100-character branches and random rule sets are judged by Trace_Flow.",
      "Exhaustive over the stated product (64k inputs quick, 1.1M-scale thorough space sampled by TLC exhaustively per chosen constants); random beyond. Sources none only (stdin shares the same code after parsing).",
      GEN, "DESIGN.md 5/C03-C04")
claim("C03",
      "On MC_Flow TLC evaluates C03 on the specification's own renderings (Render.tla) with SemVerOrder / Pep440Order: exact tag when clean, X.Y.Z < V < X.Y.(Z+1) otherwise, strict increase with one more commit in commit mode; presets without a pre-release or post component are design-level counterexamples and are listed as known findings. The same inequalities are then evaluated by Trace_Flow on the OBSERVED semver / pep440 outputs of every generated input and of random runs, parsed by the grammar modules - zerv's own comparator is never the judge.",
      "Exhaustive over the bounded input product x all 11 standard presets; random beyond. The SemVer upper bound is not claimed for tags with an epoch. Along real git histories: the flow version before and after every commit and merge commit of recorded sessions (200 quick / 3000 thorough; the first of each recording is a scripted criss-cross) must strictly increase, and a clean checkout at a final tag must print it (Trace_GitRepo).",
      GEN, "DESIGN.md 5/C03-C04")


claim("C02",
      "GitRepo.tla models the repository (commit DAG, branches, HEAD, lightweight/annotated tags) with one action per git operation and states declaratively what zerv must report (nearest validly tagged ancestor-or-self, highest version on it under the spec's own order modules, distance, dirty, branch, hashes, times, 'no version tags'). TLC enumerates every repository reachable within the bounds and emits a witness operation sequence per state; the harness replays it with the real git and compares `zerv version -C` under three input formats and five work-tree kinds with the acceptable answers. Random sessions (up to 12 commits, criss-cross merges, retagging) are validated by Trace_GitRepo, which replays every operation through the spec's actions and judges an observation after each.",
      "Exhaustive over <= 3 commits / <= 4 operations / 4 tag names (quick), <= 4 commits / <= 6 operations / 5 tag names sampled (thorough); a second exploration with history rewriting (reset --hard, commit --amend, tag -f); a tag named like a branch; observations also from a sub-directory and from linked work trees; random sessions beyond. Real git 2.39, isolated configuration, commit-time policies increasing / decreasing / constant / from the Unix epoch.",
      GEN, "DESIGN.md 5/C02")


claim("C12",
      "The placement rules are written in Schema.tla from the documentation; TLC classifies every schema in the bound and shows that every behaviour of the version machine ends in a rule-conforming schema. The harness feeds each schema as the stdin schema in effect (accepted iff valid, refused without output otherwise, irrelevant when overridden), runs every ZervModel behaviour (VCS overrides, index operations, custom precedence orders incl. the empty one) as producer | consumer (parse-back identical, byte-identical re-emission, piped rendering = direct rendering = the rendering predicted by ZervModel ; Render), and records hostile-text / custom-JSON objects and certainly malformed documents for Trace_Pipe.",
      "Exhaustive over schemas with <= 3 (quick) / 4 (thorough) components over a 12-symbol alphabet, and over the MC_Zerv argument spaces; random hostile objects beyond. RON syntax itself is opaque.",
      GEN, "DESIGN.md 5/C12")
claim("C01",
      "Decided by composition: (i) TLC proves on MC_Render that Render o Sanitizer lands in the SemVer language / PEP 440 normal forms for every rule-conforming schema in the bound; (ii) every stdout line of the whole-command runs generated from MC_Zerv, and of a recorder that puts hostile text in every free-text position under all 22 presets and random valid schemas, is judged by Trace_Output with the grammar modules: exactly prefix + one ASCII well-formed version, accepted by zerv's own check, unchanged by re-rendering for presets. Flow outputs are judged inside C04.",
      "Design theorem exhaustive in the MC_Render bound; observed lines: thousands per run, random.",
      "TLA+ design theorem checked by TLC + recorded output lines validated by TLC against the grammar modules", "DESIGN.md 5/C01")


claim("C15",
      "Template.tla states the context equations (semver / pep440 = the renderings of Render.tla, *_obj parts recompose, docker form, scalar variables) and the function contracts (sanitize = the Sanitizer contract per preset and per subset of custom parameters, prefix, prefix_if, shape contracts for hash / hash_int, format_timestamp = chrono's strftime directives on the UTC civil fields of Calendar.tla: numeric fields with padding modifiers, names, 12-hour clock, %U %W and the ISO week date, composites, zone directives). TLC checks the contracts' consistency and emits expected results for every value in the bound, replayed through `--output-template`; contexts of random objects and random function calls with hostile values, recorded under non-UTC time zones, are judged by Trace_Template.",
      "Exhaustive over values <= 4 (5) symbols x 14 determined calls; random beyond. Tera itself is not modelled.",
      GEN, "DESIGN.md 5/C15")


claim("C13",
      "Cli.tla defines the outcome protocol of a zerv process (Ok | CleanError; panic, signal, result on failure, silent failure, diagnostics on stdout, -v changing stdout are bad) and the fault / value / stdin classes. MC_Cli walks the K git calls of a run (K measured on the current build for 8 scenario/command pairs) injecting one or two faults of 15 modes at every position, and enumerates every (sub-command, option from the current clap definitions, value class, stdin class, -v) combination; each is executed by the real debug-build binary (behind a git shim for the plans) and, with random multi-option vectors and special situations (unusual repository states, healthy repositories whose refs and file names are long and not ASCII, a 300-commit history, with and without -v / RUST_LOG), judged by Trace_Cli. Beyond the property: Input.tla, the machine that decides which input a run reads (--source x stdin x working directory x -C), model-checked and replayed run by run (deviations are reported as X:input-selection, not as violations).",
      "Fault plans exhaustive for single faults (thorough: pairs, sampled); argument classes pairwise-exhaustive over (option, value class) x stdin class; random beyond. The binary is the harness-profile build of /repo/src/main.rs (debug assertions on).",
      "TLA+ outcome protocol + TLC-enumerated fault plans / argument classes executed on the real binary; every run validated by TLC", "DESIGN.md 5/C13")


claim("C14",
      "Trace_Env keeps a memo per input: the first run fixes the answer, every later run of the same input under another TZ / locale / working directory / set of unrelated variables / process must reproduce it, and runs that carry a calendar instant must start with the UTC date given by Calendar.tla (so the first observation cannot itself be wrong). ~300 inputs (CalVer presets, ts() components and format_timestamp templates within +-14 h of day / month / year boundaries, branch hashes, non-ASCII names, stdin RON, render / check, git repositories with absolute and relative -C - ahead of the tag, exactly at it, with several equal-precedence tag spellings on one commit, with a commit made at the Unix epoch, with the tag 130 commits behind HEAD; the third run of every input has debug logging on and nothing else changed) are run with the real binary under the environment matrix.",
      "~300 inputs x 8 (quick) / 60 (thorough) environments. Numbers within 10 minutes of the wall clock are masked except for clean-at-tag repositories. Only C / C.UTF-8 / POSIX locales exist on the image.",
      "TLA+ memo specification; recorded process runs under an environment matrix validated by TLC", "DESIGN.md 5/C14")


claim("C18",
      "PyApi.tla states _extend_args as a machine and the keyword -> option rule from the CLI contract; TLC checks the table invariant (every keyword of the four functions, read from the current Python signatures, maps to an option that the sub-command of the current build accepts with the right arity, read from the clap definitions) and generates every call with one or two keywords in each value class together with its expected argv. The Python harness runs the real module: captured argv = expected argv; unpatched against the built binary the return value equals the stripped stdout of the equivalent command line and failing commands raise; stdin is combined with every source; identical calls repeated in one process while the repository changes or the template prints the wall clock must each give the answer of the command line run at that moment.",
      "Finite: 41 + 27 + 2 + 4 keywords x 7 value classes (None, False, True, 0, valid, empty string, hostile text) (quick), all keyword pairs (thorough).",
      GEN, "DESIGN.md 5/C18")


def main():
    m = {
        "version": 1,
        "setup_cmd": "./check setup",
        "hooks": {"guard": "zerv_verif",
                  "enable": "harness/.cargo/config.toml passes --cfg zerv_verif to rustc for zerv and the harness (no source hooks exist; the name is reserved)",
                  "baseline_off_cmd": "python3 /verif/tools/baseline.py", "source_commits": [], "add_only": True},
        "engines": [{"name": "tlc+zv", "path": "/verif/check", "serves_properties": sorted(C),
                     "kind_free_text": "TLA+ specification under spec/, model-checked by TLC; bound to the code by the Rust harness zv (TLC-generated behaviours replayed into zerv; recorded traces validated by TLC)"}],
        "checks": [], "not_applicable": [],
        "notes": "See DESIGN.md. Exit codes: 0 held (KNOWN-FINDING lines possible), 1 VIOLATION, 2 tool error.",
    }
    for p in props:
        pid = p["id"]
        if pid in C:
            c = C[pid]
            m["checks"].append({
                "property_id": pid, "quick_cmd": "./check %s --tier quick" % pid,
                "thorough_cmd": "./check %s --tier thorough" % pid,
                "evidence_file": "evidence/%s.json" % pid,
                "replay_cmd_template": "./check %s --replay {path}" % pid, "engine": "tlc+zv",
                "level_claimed": {"category": "fault_enumeration" if pid == "C13" else "model_checking", "text": c["text"], "design_ref": c["ref"]},
                "level_note": c["note"], "technique": c["technique"]})
        else:
            m["not_applicable"].append({"property_id": pid, "reason": "check under construction in this round; not claimed until its specification module and conformance harness are committed"})
    with open(V + "/MANIFEST.json", "w") as f:
        json.dump(m, f, indent=1)
        f.write("\n")

main()
