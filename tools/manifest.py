#!/usr/bin/env python3
"""Regenerates /verif/MANIFEST.json from the table below (one entry per claimed property)."""
import json, os
V = "/verif"
props = [json.loads(l) for l in open(V + "/properties.jsonl")]
TB = ("Trusted: TLC and the CommunityModules JSON reader, the hand-written specification module(s), "
      "the harness's concretisation and comparison code.")
C = {}
def claim(pid, text, note, technique, ref):
    C[pid] = dict(text=text, note=note + " " + TB, technique=technique, ref=ref)

GEN = "TLA+ spec model-checked by TLC; TLC-generated cases replayed into the code; recorded traces validated by TLC"
claim("C16",
      "TLC checks on the Sanitizer specification that the pass machine meets the declarative run-based contract and every consequence listed in the property (alphabet, separators, zeros, length, idempotence) for all strings up to the bound and all 60 settings; every such string is replayed into Sanitizer::sanitize with the acceptable results computed by the specification, and recorded random-Unicode traces are validated by TLC event by event.",
      "Bounded: strings <= 4 (quick) / 5 (thorough) over a 9-symbol alphabet exhaustively; random Unicode up to 40 scalars beyond.",
      GEN, "DESIGN.md 5/C16")
claim("C08",
      "SemVerGrammar.tla states the semver.org BNF as predicates and as a character automaton; TLC shows them equal and that printing a parse gives the input back, on every string <= 5/6 over an 11-symbol alphabet and on all viable prefixes (with their dead one-symbol extensions) to length 8/10; every explored string is replayed into SemVer::from_str/to_string and `check --format semver`; long token-composed and mutated strings recorded from the code are judged by TLC.",
      "Bounded exhaustive enumeration plus seeded random long strings; numbers beyond u64 in the core may be rejected or preserved.",
      GEN, "DESIGN.md 5/C08")
claim("C09",
      "Pep440Grammar.tla states Appendix B as the set of all decompositions and as the leftmost-greedy parser; TLC shows they accept the same strings, that the greedy value is a decomposition and that the normal form is an accepted fixed point, on every string <= 5/6 over an 11-symbol alphabet; every string is replayed into PEP440::from_str/to_string/==/check; structured spellings and mutations recorded from the code are judged by TLC.",
      "Bounded exhaustive enumeration plus seeded structured/mutated strings; numbers beyond u32 may be rejected or preserved.",
      GEN, "DESIGN.md 5/C09")

def main():
    m = {
        "version": 1,
        "setup_cmd": "./check setup",
        "hooks": {"guard": "zerv_verif",
                  "enable": "harness/.cargo/config.toml passes --cfg zerv_verif to rustc for zerv and the harness (no source hooks exist; the name is reserved)",
                  "baseline_off_cmd": "python3 /verif/tools/baseline.py", "source_commits": [], "add_only": True},
        "engines": [{"name": "tlc+zv", "path": "/verif/check", "serves_properties": sorted(C),
                     "kind_free_text": "TLA+ specification under spec/, model-checked by TLC; bound to the code by the Rust harness zv (TLC-generated behaviours replayed into zerv; recorded traces validated by TLC)"}],
        "checks": [], "not_applicable": [],
        "notes": "See DESIGN.md. Exit codes: 0 held (KNOWN-FINDING lines possible), 1 VIOLATION, 2 tool error.",
    }
    for p in props:
        pid = p["id"]
        if pid in C:
            c = C[pid]
            m["checks"].append({
                "property_id": pid, "quick_cmd": "./check %s --tier quick" % pid,
                "thorough_cmd": "./check %s --tier thorough" % pid,
                "evidence_file": "evidence/%s.json" % pid,
                "replay_cmd_template": "./check %s --replay {path}" % pid, "engine": "tlc+zv",
                "level_claimed": {"category": "model_checking", "text": c["text"], "design_ref": c["ref"]},
                "level_note": c["note"], "technique": c["technique"]})
        else:
            m["not_applicable"].append({"property_id": pid, "reason": "check under construction in this round; not claimed until its specification module and conformance harness are committed"})
    with open(V + "/MANIFEST.json", "w") as f:
        json.dump(m, f, indent=1)
        f.write("\n")

main()
