#!/bin/bash
# Binding self-test: apply every seeded change to /repo in turn, run the check(s) that should catch it,
# restore /repo, and print a table.  Not a registered check (it edits /repo's work tree temporarily).
#   tools/selftest.sh            all seeded changes
#   tools/selftest.sh C05        only those whose directory name starts with C05
set -u
cd /verif
filter=${1:-}
declare -A EXTRA=( [C03-explicit-commit-mode-overridden]="C03 C04" [C14-format-timestamp-local-tz]="C14 C15" [C01-leading-zero-beyond-u64-kept]="C01 C16 C06" [C06-smart-tier-post-zero]="C06" )
printf "%-48s %-6s %s\n" "seeded change" "check" "result"
for d in seeded/*/; do
  name=$(basename "$d")
  [[ -n "$filter" && "$name" != "$filter"* ]] && continue
  [[ -f "$d/patch.diff" ]] || continue
  checks=${EXTRA[$name]:-${name%%-*}}
  if ! git -C /repo diff --quiet; then echo "/repo not clean"; exit 2; fi
  if ! git -C /repo apply --check "$PWD/$d/patch.diff" 2>/dev/null; then printf "%-48s %-6s %s\n" "$name" "-" "patch does not apply"; continue; fi
  git -C /repo apply "$PWD/$d/patch.diff"
  for c in $checks; do
    ./check "$c" --tier quick > .build/selftest-$name-$c.log 2>&1; rc=$?
    case $rc in 1) res="DETECTED ($(grep -m1 'violations by key' .build/selftest-$name-$c.log | cut -c1-120))";; 0) res="missed";; *) res="tool error";; esac
    printf "%-48s %-6s %s\n" "$name" "$c" "$res"
  done
  git -C /repo checkout -- .
done
