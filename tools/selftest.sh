#!/bin/bash
# Binding self-test: every seeded change is applied to a scratch worktree of /repo and the check(s)
# that should catch it are run from a scratch copy of /verif pointed at that worktree
# (tools/try_isolated.sh); /repo itself is never touched.  Prints a table.  Not a registered check.
#   tools/selftest.sh            all seeded changes
#   tools/selftest.sh C05        only those whose directory name starts with C05
set -u
cd /verif
filter=${1:-}
declare -A EXTRA=( [C03-explicit-commit-mode-overridden]="C03,C04" [C14-format-timestamp-local-tz]="C14,C15" [C01-leading-zero-beyond-u64-kept]="C01,C16,C06"
                   [C03-longest-branch-rule-wins]="C03,C04" [C01-pep440-empty-local-bare-plus]="C01,C06" )
printf "%-48s %s\n" "seeded change" "result"
for d in seeded/*/; do
  name=$(basename "$d")
  [[ -n "$filter" && "$name" != "$filter"* ]] && continue
  [[ -f "$d/patch.diff" ]] || continue
  checks=${EXTRA[$name]:-${name%%-*}}
  if ! git -C /repo apply --check "$PWD/$d/patch.diff" 2>/dev/null; then printf "%-48s %s\n" "$name" "patch does not apply (neutralised by a later fix)"; continue; fi
  tools/try_isolated.sh "$d/patch.diff" "$checks" quick 2>&1 | grep -E "^check |violations by key" | sed "s/^/    /" | cut -c1-220 > .build/selftest-$name.txt
  printf "%-48s\n" "$name"; cat .build/selftest-$name.txt
done
