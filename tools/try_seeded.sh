#!/bin/bash
# usage: try_seeded.sh <seeded-dir> <check-id> [tier]   -- applies the patch to /repo, runs the check, restores /repo
set -u
d=$1; id=$2; tier=${3:-quick}
cd /repo || exit 2
git diff --quiet || { echo "/repo not clean"; exit 2; }
git apply "$d/patch.diff" || { echo "patch does not apply"; exit 2; }
cd /verif && ./check "$id" --tier "$tier" > /verif/.build/try-$id.log 2>&1
rc=$?
cd /repo && git checkout -- . 
echo "check $id on $(basename $d): exit $rc"; grep -E "VIOLATION|violations by key|OK property|TOOL-ERROR" /verif/.build/try-$id.log | head -5
exit 0
