#!/bin/bash
# usage: try_isolated.sh <patch.diff> <check-id>[,<check-id>...] [tier]
# Runs checks against a patched COPY of /repo without touching /repo (usable while other checks run):
# a scratch git worktree of /repo gets the patch, a scratch copy of /verif is pointed at it, the
# checks run there, both are removed.  Not a registered check.
set -u
patch=$(readlink -f "$1"); ids=$2; tier=${3:-quick}
n=$$
R=/tmp/iso/repo-$n; V=/tmp/iso/verif-$n
mkdir -p /tmp/iso
git -C /repo worktree add --detach -q "$R" HEAD || exit 2
cleanup() { git -C /repo worktree remove --force "$R" 2>/dev/null; rm -rf "$V" "$R"; }
trap cleanup EXIT
git -C "$R" apply "$patch" || { echo "patch does not apply"; exit 2; }
mkdir -p "$V"
rsync -a --exclude .git --exclude .build --exclude replays --exclude seeded /verif/ "$V"/
mkdir -p "$V/.build"; cp -r /verif/.build/target "$V/.build/target" 2>/dev/null
sed -i "s#\"/repo\"#\"$R\"#" "$V/harness/Cargo.toml"
sed -i "s#/repo/src/main.rs#$R/src/main.rs#" "$V/harness/src/bin/zerv.rs"
sed -i "s#\"/repo/python\"#\"$R/python\"#" "$V/pyharness/c18.py"
sed -i "s#\"/repo/Cargo.lock\"#\"$R/Cargo.lock\"#" "$V/vlib/core.py"
sed -i "s#\"/repo/\"#\"$R/\"#" "$V/harness/src/proc.rs"
cd "$V" || exit 2
for id in ${ids//,/ }; do
  ./check "$id" --tier "$tier" > "$V/.build/try-$id.log" 2>&1
  rc=$?
  echo "check $id on $(basename $(dirname $patch)): exit $rc"
  grep -E "VIOLATION|violations by key|OK property|TOOL-ERROR|SPEC-DEVIATION" "$V/.build/try-$id.log" | cut -c1-400 | head -6
  [ $rc -ge 2 ] && tail -5 "$V/.build/try-$id.log" | cut -c1-300
  # keep the replay file of a reported violation for inspection (scratch, git-ignored)
  mkdir -p /verif/.build/iso-replays && cp "$V"/replays/$id-*.json /verif/.build/iso-replays/ 2>/dev/null
done
exit 0
