#!/bin/bash
# usage: save_seeded.sh <out-dir of the sub-agent> <name under seeded/>   (after tools/confirm_seeded.sh said CONFIRMED)
set -eu
O=$1; N=$2; D=/verif/seeded/$N
grep -q CONFIRMED "$O/../confirm-$(basename ${O%-out}).log" || { echo "not confirmed"; exit 1; }
mkdir -p "$D"
cp "$O/patch.diff" "$O/demo.sh" "$D"/
[ -d "$O/demo" ] && cp -r "$O/demo" "$D"/
python3 - "$O" "$D" <<'PY'
import json,sys
o,d=sys.argv[1:3]
m=json.load(open(o+"/meta.json"))
log=open(o+"/../confirm-"+o.rstrip("/").split("/")[-1][:-4]+".log").read().strip().splitlines()
m["confirmed_here"]=[l for l in log if not l.startswith("WARNING")]+["tools/confirm_seeded.sh: demo run with and without the change in the agent's scratch worktree; pinned suite via tools/baseline.py <worktree>"]
json.dump(m,open(d+"/meta.json","w"),indent=1)
PY
echo saved $D
