"""C11 - PEP 440 comparison is a spelling-independent total order on the fixed key.

MC  : MC_PepOrder - PepCmp (the key of C11) is reflexive, antisymmetric, total, transitive,
      equal exactly for values that differ in trailing zero release numbers; the chain
      pre-releases < dev < final < post; every spelling of a value parses (Pep440Grammar)
      to a key-equal value.
Gen : one row per ordered pair, each side in one of three spellings chosen by position;
      the harness parses both strings and checks cmp, reverse cmp and ==.
Trace: random structured versions in random spellings: comparisons, sort() results and
      find_max_version_tag for PEP 440 tag sets, judged by Trace_Order.
"""
from . import order_common


def cfg(big):
    return """SPECIFICATION Spec
CONSTANTS
  Emit = TRUE
  Big = %s
INVARIANTS Reflexive Antisymmetric EqualIffSame Transitive Chain SpellingIndependent EmitLine
CHECK_DEADLOCK FALSE
""" % ("TRUE" if big else "FALSE")


def run(tier):
    big, n = (False, 40000) if tier == "quick" else (False, 400000)
    return order_common.run(
        "C11", "pep440", "MC_PepOrder", cfg(big), tier,
        "Gen: all %(rows)d ordered pairs of the universe epoch{0,1} x 4 release shapes (incl. trailing zeros) x "
        "4 pre x 2 post x 2 dev x 4 local, each side in one of 3 spellings (normal; v/alpha/-rev/leading "
        "zeros/trailing .0; implicit numbers/explicit 0!/preview/r); non-trivial = strictly ordered. "
        "Trace: %(tev)d random comparisons / sorts / max-tag selections in random spellings.",
        ["TLC and the CommunityModules JSON reader",
         "Pep440Order.tla is the key fixed by C11 (not pip's ordering); spellings are tied to Pep440Grammar by TLC"],
        n)


replay = order_common.replay
