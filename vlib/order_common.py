"""Shared driver of C10 (SemVer order) and C11 (PEP 440 order)."""
import os

from . import core


def run(pid, fmt, module, cfg_text, tier, rule, assumptions, n_trace):
    v = core.Verdict(pid)
    r = core.tlc(module, cfg_text, pid.lower() + "-mc", workers=12, timeout=7200)
    core.log("%s: TLC %s: %d states, %d distinct, %.1fs" % (pid, module, r["states"], r["distinct"], r["wall"]))
    rep = core.zv(["replay", fmt + "-order", r["out_path"]])
    core.log("  replayed %d comparison rows (%d strictly ordered), %d mismatches"
             % (rep["evaluations"], rep["nontrivial"], rep["mismatch_count"]))
    if rep["evaluations"] == 0:
        raise core.ToolError("no rows generated")
    v.add(rep["mismatches"])
    os.remove(r["out_path"])
    chunk = 20000
    tev = tbad = 0
    for k in range(0, n_trace, chunk):
        path = os.path.join(core.BUILD, "%s-trace-%d.ndjson" % (pid.lower(), k))
        core.zv(["record", fmt + "-order", core.seed() * 1000 + k // chunk, min(chunk, n_trace - k), path])
        events, bad, _ = core.trace_validate("Trace_Order", path, pid.lower() + "-trace")
        tev += len(events)
        tbad += len(bad)
        for i, ev in bad:
            m = dict(key="%s:%s" % (pid, "panic" if ev.get("panic") else ev["k"]), line=i, trace=path)
            for f in ("a", "b", "max"):
                if f in ev:
                    m[f] = core.cp_text(ev[f])
            for f in ("tags", "sorted"):
                if f in ev:
                    m[f] = [core.cp_text(x) for x in ev[f]]
            for f in ("cmp", "eq", "rcmp", "some"):
                if f in ev:
                    m[f] = ev[f]
            v.add([m])
    core.log("  validated %d recorded events (comparisons, sorts, max-tag), %d rejected" % (tev, tbad))
    cov = dict(states=r["distinct"], transitions=r["states"],
               traces_validated_against_impl=rep["evaluations"] + tev, samples=rep["samples"][:5],
               evaluations=rep["evaluations"] + tev, distinct_nontrivial=rep["nontrivial"],
               rule=rule % dict(rows=rep["evaluations"], tev=tev), exhaustive=True, recorded_events=tev,
               distinct_spellings=rep["extra"].get("distinct_spellings"))
    return v.finish(tier, "model_checking", cov, assumptions)


def replay(path):
    return core.replay_generic(path)
