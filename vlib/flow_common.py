"""Shared driver of C03 (flow versions sort consistently with history) and C04 (flow derives its
parts from the documented branch rules).

MC   : MC_Flow over Flow.tla - the walk of pass two equals the component law of C04; on the
       rendered strings (Render.tla, judged by SemVerOrder / Pep440Order) the bounds
       X.Y.Z < V < X.Y.(Z+1), exactness at a clean tag and commit-mode monotonicity hold, except
       for presets that print no pre-release / no post component (design-level findings).
Gen  : every input of the bound is run through `zerv flow` (zerv, semver and pep440 output, and
       once more with one extra commit); components are compared with TLC's expected values,
       the branch hash through its contract.
Trace: the observations of the Gen runs and of seeded random runs (Unicode and 100-character
       branch names, random rule sets, every hash length, all presets) are judged by
       Trace_Flow: components against FlowResult, and the C03 inequalities on the OBSERVED
       strings parsed by the grammar modules.
"""
import os

from . import core

NO_PRE = {"-base", "-base-context"}
NO_POST = NO_PRE | {"-base-prerelease", "-base-prerelease-context"}
ALL_SUFFIXES = ["", "-no-context", "-context", "-base", "-base-prerelease", "-base-prerelease-post",
                "-base-prerelease-post-dev", "-base-context", "-base-prerelease-context",
                "-base-prerelease-post-context", "-base-prerelease-post-dev-context"]


def cfg(suffixes, rulesets, big, invariants, hlens=(5,)):
    return """SPECIFICATION Spec
CONSTANTS
  Emit = TRUE
  Suffixes = {%s}
  RuleSets = {%s}
  Big = %s
  HLens = {%s}
INVARIANTS %s EmitLine
CHECK_DEADLOCK FALSE
""" % (", ".join('"%s"' % s for s in suffixes), ", ".join(str(r) for r in rulesets), "TRUE" if big else "FALSE", ", ".join(str(h) for h in hlens), " ".join(invariants))


def classify(pid, ev):
    """key of a rejected trace event"""
    why = ev.get("_reason", "components")
    sfx = ev["f"]["suffix"]
    if why == "panic":
        return "%s:panic" % pid
    if why == "bounds":
        return "C03:preset=standard%s:no-pre-release-component" % sfx if sfx in NO_PRE else "C03:bounds"
    if why == "monotonic":
        return "C03:preset=standard%s:no-post-component" % sfx if sfx in NO_POST else "C03:monotonic"
    if why == "wellformed":
        return "C04:output-not-wellformed"
    return "C04:flow-components"


def run(pid, tier):
    v = core.Verdict(pid)
    mine = {"C03": ("bounds", "monotonic"), "C04": ("components", "wellformed", "panic")}[pid]
    invariants = {"C03": ["Bounds", "PreTagExact", "Monotonic"], "C04": ["LawHolds", "CleanTagUnchanged"]}[pid]
    if tier == "quick":
        sfx, rs, big = (ALL_SUFFIXES if pid == "C03" else ["", "-base-prerelease-post-dev", "-context"]), ([1] if pid == "C03" else [1, 2, 3, 4]), False
        hl = (5,)
    elif pid == "C03":
        # the order claims: every preset, the large tag / branch universe, the default and one custom rule set
        sfx, rs, big, hl = ALL_SUFFIXES, [1, 2], True, (5, 10)
    else:
        # the component law: every rule set and hash length (0 and 11 are refused), presets that differ in components
        sfx, rs, big, hl = ["", "-base-prerelease-post-dev", "-context", "-base"], [1, 2, 3, 4], True, (5, 1, 10, 0, 11)
    r = core.tlc("MC_Flow", cfg(sfx, rs, big, invariants, hl), pid.lower() + "-mc", workers=12, timeout=14400)
    core.log("%s: TLC MC_Flow: %d states, %.1fs" % (pid, r["distinct"], r["wall"]))
    obs_path = os.path.join(core.BUILD, "%s-gen-observations.ndjson" % pid.lower())
    keep = max(1, r["distinct"] // 300000)
    rep = core.zv(["replay", "flow", r["out_path"], obs_path, keep], timeout=14400)
    core.log("  replayed %d flow inputs (%d dirty/ahead), %d component mismatches"
             % (rep["evaluations"], rep["nontrivial"], rep["mismatch_count"]))
    if rep["evaluations"] == 0:
        raise core.ToolError("nothing generated")
    if pid == "C04":
        v.add(rep["mismatches"])
    os.remove(r["out_path"])
    traces = [obs_path]
    n = 4000 if tier == "quick" else 60000
    chunk = 4000
    for k in range(0, n, chunk):
        path = os.path.join(core.BUILD, "%s-trace-%d.ndjson" % (pid.lower(), k))
        core.zv(["record", "flow", core.seed() * 1000 + k // chunk, chunk, path], timeout=14400)
        traces.append(path)
    tev = tbad = 0
    states = r["distinct"]
    trans = r["states"]
    # validate in slices, several TLC processes at a time
    from concurrent.futures import ThreadPoolExecutor
    parts = []
    for path in traces:
        lines = open(path).read().splitlines()
        for s in range(0, len(lines), 6000):
            part = "%s.part%d" % (path, s)
            with open(part, "w") as fh:
                fh.write("\n".join(lines[s:s + 6000]) + "\n")
            parts.append(part)

    def one(job):
        idx, part = job
        return core.trace_validate("Trace_Flow", part, "%s-trace-%d" % (pid.lower(), idx), timeout=7200, xmx="3g")

    with ThreadPoolExecutor(max_workers=6) as ex:
        results = list(ex.map(one, enumerate(parts)))
    for part, (events, bad, tr) in zip(parts, results):
        tev += len(events)
        states += tr["distinct"]
        trans += tr["states"]
        for i, ev in bad:
            why = [w for w in ev.get("_reason", "components").split(",") if w in mine]
            if not why:
                continue
            tbad += 1
            ev["_reason"] = why[0]
            v.add([dict(key=classify(pid, ev), reason=ev.get("_reason"), argv=ev["argv"], observed=ev["out"],
                        semver=core.cp_text(ev["semver"]["s"]), pep440=core.cp_text(ev["pep440"]["s"]),
                        semver_next_commit=core.cp_text(ev["nsemver"]["s"]), hash=ev["hash"])])
        os.remove(part)
    core.log("  validated %d observed flow runs with Trace_Flow, %d rejected for %s" % (tev, tbad, "/".join(mine)))
    if pid == "C03":
        # along real git histories: flow version before / after every commit of random sessions
        from .c02 import TRACE_CFG as GIT_TRACE_CFG
        sessions = 200 if tier == "quick" else 3000
        pairs = 0
        for k in range(0, sessions, 200):
            path = os.path.join(core.BUILD, "c03-git-%d.ndjson" % k)
            core.zv(["record", "gitrepo", core.seed() * 1000 + 500 + k // 200, 200, path], timeout=14400)
            saved = core.TRACE_CFG
            core.TRACE_CFG = GIT_TRACE_CFG
            try:
                events, bad, tr = core.trace_validate("Trace_GitRepo", path, "c03-git", marker=True)
            finally:
                core.TRACE_CFG = saved
            pairs += sum(1 for e in events if e["k"] in ("flowpair", "flowclean"))
            states += tr["distinct"]
            trans += tr["states"]
            for i, ev in bad:
                if not ev.get("_reason", "").startswith("flow-"):
                    continue
                tbad += 1
                if ev["k"] == "flowclean":
                    v.add([dict(key="C03:" + ev["_reason"], line=i, trace=path, semver=core.cp_text(ev["sv"]), pep440=core.cp_text(ev["pep"]))])
                    continue
                v.add([dict(key="C03:" + ev["_reason"], line=i, trace=path, branch=ev["branch"], base_tag=core.cp_text(ev["tag"]),
                            before=core.cp_text(ev["sv0"]), after=core.cp_text(ev["sv1"]),
                            pep_before=core.cp_text(ev["pep0"]), pep_after=core.cp_text(ev["pep1"]))])
        tev += pairs
        core.log("  %d before/after-commit flow pairs and clean-at-tag flow outputs along real git histories judged" % pairs)
    cov = dict(states=states, transitions=trans, traces_validated_against_impl=rep["evaluations"] + tev,
               samples=rep["samples"][:4], evaluations=rep["evaluations"] + tev, distinct_nontrivial=rep["nontrivial"],
               rule="Gen: %d tags x %d branch names x distance {unset,0,1,3} x {-, --dirty, --no-dirty, --clean} x --post {-,5} x "
                    "label {-,beta} x number {-,3} x post-mode {-,tag,commit} x hash length %s x %d rule sets x %d standard "
                    "presets, each observed in zerv/semver/pep440 output and with one more commit; non-trivial = dirty or "
                    "ahead of the tag. Trace: those observations + %d random runs."
                    % (5 if big else 3, 14 if big else 8, list(hl), len(rs), len(sfx), n),
               exhaustive=True, recorded_events=tev)
    return v.finish(tier, "model_checking", cov,
                    ["TLC and the CommunityModules JSON reader",
                     "Flow.tla (two passes of the version machine) and the component law are two formulations tied by TLC",
                     "the branch hash is opaque: only its contract (digits, at most the configured length, no leading zero, same value on repeated evaluation) is checked",
                     "a SemVer upper bound is not claimed for tags with an epoch (SemVer carries the epoch as pre-release identifiers)"])


def replay(path):
    return core.replay_generic(path)
