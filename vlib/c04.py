"""C04 - see flow_common."""
from . import flow_common


def run(tier):
    return flow_common.run("C04", tier)


replay = flow_common.replay
