"""C09 - the PEP 440 parser accepts exactly PEP 440 (Appendix B) and prints the normal form.

MC  : MC_Pep440 - greedy parser <=> existence of a decomposition, greedy value is one of
      the decompositions, the normal form is accepted and a fixed point, ASCII only; every
      string up to the bound over {0 1 a r c . - + ! v U+017F}.
Gen : one REPLAY line per string (verdict, normal form) replayed into PEP440::from_str /
      to_string / re-parse / == / run_check_command(--format pep440).
Trace: structured compositions (every label spelling and casing, every separator choice,
      numbers with leading zeros and at the u32 boundary, local segments) and mutations,
      recorded from the code and judged by Trace_Pep440.
"""
import os

from . import core

ALPHABET = "{48, 49, 97, 114, 99, 46, 45, 43, 33, 118, 383}"


def cfg(maxlen):
    return """SPECIFICATION Spec
CONSTANTS
  Alphabet = %s
  MaxLen = %d
  Emit = TRUE
INVARIANTS GreedyIsComplete GreedyIsADecomposition NormalIsFixedPoint AsciiOnly EmitLine
CHECK_DEADLOCK FALSE
""" % (ALPHABET, maxlen)


def trace_key(ev):
    s = ev["s"]
    if ev.get("panic"):
        return "C09:panic"
    if any(c > 127 for c in s):
        return "C09:non-ascii-input"
    txt = core.cp_text(s)
    import re
    if any(len(t.lstrip("0")) >= 10 for t in re.split(r"\D", txt)):
        return "C09:number-beyond-u32"
    return "C09:ascii"


def run(tier):
    v = core.Verdict("C09")
    maxlen = 5 if tier == "quick" else 6
    r = core.tlc("MC_Pep440", cfg(maxlen), "c09-all", workers=12, timeout=7200)
    core.log("C09: TLC MaxLen=%d: %d states, %d distinct, %.1fs" % (maxlen, r["states"], r["distinct"], r["wall"]))
    rep = core.zv(["replay", "pep440", r["out_path"]])
    core.log("  replayed %d strings (%d accepted by the grammar), %d mismatches"
             % (rep["evaluations"], rep["nontrivial"], rep["mismatch_count"]))
    v.add(rep["mismatches"])
    os.remove(r["out_path"])
    n = 40000 if tier == "quick" else 400000
    chunk = 20000
    tev = tbad = 0
    for k in range(0, n, chunk):
        path = os.path.join(core.BUILD, "c09-trace-%d.ndjson" % k)
        core.zv(["record", "pep440", core.seed() * 1000 + k // chunk, chunk, path])
        events, bad, _ = core.trace_validate("Trace_Pep440", path, "c09-trace")
        tev += len(events)
        tbad += len(bad)
        for i, ev in bad:
            v.add([dict(key=trace_key(ev), line=i, trace=path, s=core.cp_text(ev["s"]),
                        observed=dict(panic=ev["panic"], accepted=ev["ok"], printed=core.cp_text(ev["printed"]),
                                      reprinted=core.cp_text(ev["printed2"]), equal=ev["eq"], check=ev["check"],
                                      check_normal=core.cp_text(ev["check_norm"])))])
    core.log("  validated %d recorded events, %d rejected" % (tev, tbad))
    cov = dict(states=r["distinct"], transitions=r["states"],
               traces_validated_against_impl=rep["evaluations"] + tev,
               samples=rep["samples"][:5], evaluations=rep["evaluations"] + tev,
               distinct_nontrivial=rep["nontrivial"],
               rule="Gen: every string of length <= %d over {0 1 a r c . - + ! v U+017F}; non-trivial = accepted by "
                    "the grammar. Trace: %d structured compositions (label spellings x casing x separators x "
                    "numbers incl. leading zeros and 2^32 boundary x local segments) and their mutations." % (maxlen, tev),
               exhaustive=True, recorded_events=tev)
    return v.finish(tier, "model_checking", cov,
                    ["TLC and the CommunityModules JSON reader",
                     "Pep440Grammar.tla transcribes PEP 440 Appendix B (two formulations checked equal by TLC); the value is the leftmost-greedy parse of the reference regex",
                     "numbers beyond u32 may be rejected (C07) or preserved exactly (C09); both are accepted"])


def replay(path):
    return core.replay_generic(path)
