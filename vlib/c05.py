"""C05 - override, bump and reset semantics follow the precedence order.

MC  : MC_Zerv over ZervModel - the action property HigherLevelsUnchanged for every step of
      the precedence walk, the closed-form law of the property ("value = override, else reset
      value if a higher level bumped, else start; plus bump") against the stepwise machine,
      errors produce no result, the schema stays valid, the smart tier is a function of
      (dirty, distance, pre-release, post) - in five bounded argument spaces (names / index /
      vcs / order = custom precedence orders incl. one with levels left out / tmpl = flag values
      that are templates over the pre-bump snapshot).
      ResetLaw.tla (spec/apalache) is the same law unrolled for the default order on unbounded
      integers: Apalache checks the action invariant (higher levels unchanged, lower levels reset
      on a bump, nothing reset without a bump) from an arbitrary state for all override / bump
      values; MC_ResetLawLink (TLC) shows every ResetLaw transition equals ZervOps!ProcByName.
      BigNum.tla / Trace_BigBump: the law on decimal texts for tags whose numbers are arbitrary u64
      values (2^31, 2^32, 2^53, 2^63, 2^64 - 1 and neighbours): the addressed level becomes
      override-or-current + bump, higher levels unchanged, lower levels reset; a sum beyond u64 and
      a flag amount beyond u32 (the flags' type) are refused.
Gen : one REPLAY line per behaviour; the harness turns the arguments into a real argv (flag
      order shuffled twice, optional-value and = forms varied, tag in SemVer or PEP 440
      spelling), runs clap + run_version_pipeline with --output-format zerv and compares every
      variable, the VCS context and every schema component; both permutations must agree.
Trace: seeded random flag subsets with amounts up to 2^29, stdin objects with unset fields,
      all presets and random custom schemas, random index operations; Trace_Zerv replays the
      machine's own actions for every recorded run and judges the observation.
"""
import os

from . import core


def cfg(mode, choices):
    return """SPECIFICATION Spec
CONSTANTS
  Mode = "%s"
  Emit = TRUE
  OpChoices = %s
INVARIANTS ClosedFormLaw ErrorsAreFinal SchemaStaysValid TierOnlyFromState EmitLine
PROPERTIES ActionProps
CHECK_DEADLOCK FALSE
""" % (mode, choices)


def trace_key(ev):
    if ev["out"]["kind"] == "panic":
        return "C05:panic"
    a = ev["a"]
    for op in a["ops"]:
        if op["kind"] == "bump" and op["idx"] < 0:
            return "C05:bump-negative-index"
    return "C05:index-op" if a["ops"] else "C05:by-name"


def run(tier):
    v = core.Verdict("C05")
    modes = [("names", "{0, 1, 2}"), ("index", "{0}"), ("vcs", "{0}"), ("order", "{0}"), ("tmpl", "{0}")] if tier == "quick" else \
            [("names", "{0, 1, 2, 3}"), ("index", "{0}"), ("vcs", "{0}"), ("order", "{0}"), ("tmpl", "{0}")]
    states = trans = evals = nontrivial = 0
    samples = []
    for mode, choices in modes:
        r = core.tlc("MC_Zerv", cfg(mode, choices), "c05-" + mode, workers=12, timeout=7200)
        core.log("C05: TLC mode %s: %d states, %d distinct, %.1fs" % (mode, r["states"], r["distinct"], r["wall"]))
        rep = core.zv(["replay", "zerv", r["out_path"], core.seed()])
        core.log("  replayed %d behaviours x 2 flag orders (%d change the start version, %d expected errors), %d mismatches"
                 % (rep["evaluations"], rep["nontrivial"], rep["extra"]["expected_errors"], rep["mismatch_count"]))
        if rep["evaluations"] == 0:
            raise core.ToolError("no behaviours generated for mode " + mode)
        v.add(rep["mismatches"])
        states += r["distinct"]
        trans += r["states"]
        evals += rep["evaluations"]
        nontrivial += rep["nontrivial"]
        samples += rep["samples"][:2]
        os.remove(r["out_path"])
    # unbounded: Apalache checks the reset law on ResetLaw.tla for all integers (action invariant from an
    # arbitrary state, one step); TLC ties ResetLaw's transitions to ZervOps on small values (thorough)
    import shutil
    import subprocess
    apdir = os.path.join(core.SPEC, "apalache")
    outdir = os.path.join(core.BUILD, "apalache-out")
    apalache = []
    for inv in ("Law", "WF"):
        p = subprocess.run(["timeout", "600", "apalache-mc", "check", "--length=1", "--inv=" + inv, "--out-dir=" + outdir, "ResetLaw.tla"],
                           cwd=apdir, stdout=subprocess.PIPE, stderr=subprocess.STDOUT, text=True)
        ok = "EXITCODE: OK" in p.stdout
        apalache.append(dict(invariant=inv, ok=ok))
        if not ok and "Checker has found an error" in p.stdout:
            v.add([dict(key="C05:reset-law-design", invariant=inv, tool="apalache", output=p.stdout[-600:])])
        elif not ok:
            raise core.ToolError("apalache failed on ResetLaw (%s): %s" % (inv, p.stdout[-800:]))
    shutil.rmtree(outdir, ignore_errors=True)
    core.log("  Apalache: ResetLaw action invariant Law and inductive WF hold for all integers: %s" % apalache)
    # TLAPS: the same law and the inductive invariant as theorems about every behaviour (ResetLawProof.tla)
    pdir = os.path.join(core.BUILD, "tlaps")
    shutil.rmtree(pdir, ignore_errors=True)
    os.makedirs(pdir)
    for f in ("ResetLaw.tla", "ResetLawProof.tla"):
        shutil.copy(os.path.join(apdir, f), pdir)
    p = subprocess.run(["timeout", "1800", "tlapm", "--threads", "8", "ResetLawProof.tla"], cwd=pdir, stdout=subprocess.PIPE, stderr=subprocess.STDOUT, text=True)
    import re
    m = re.search(r"All (\d+) obligations proved", p.stdout)
    if not m:
        raise core.ToolError("TLAPS did not prove ResetLawProof: " + p.stdout[-1500:])
    core.log("  TLAPS: %s obligations of ResetLawProof proved (Spec => []WF, Spec => [][Law]_vars)" % m.group(1))
    shutil.rmtree(pdir, ignore_errors=True)
    if tier != "quick":
        cmd = ["java", "-XX:+UseParallelGC", "-cp", core.JAR, "-DTLA-Library=" + core.SPEC, "tlc2.TLC", "-workers", "8", "-metadir",
               os.path.join(core.BUILD, "tlc", "c05-link.meta"), "-cleanup", "-noGenerateSpecTE", "-config", "MC_ResetLawLink.cfg", "MC_ResetLawLink.tla"]
        p = subprocess.run(cmd, cwd=apdir, stdout=subprocess.PIPE, stderr=subprocess.STDOUT, text=True, timeout=3600)
        if "No error has been found" not in p.stdout:
            raise core.ToolError("ResetLaw is not linked to ZervOps: " + p.stdout[-1200:])
        core.log("  TLC: every ResetLaw transition from a small state is ZervOps!ProcByName at that level")
    n = 20000 if tier == "quick" else 200000
    chunk = 10000
    tev = tbad = 0
    for k in range(0, n, chunk):
        path = os.path.join(core.BUILD, "c05-trace-%d.ndjson" % k)
        core.zv(["record", "zerv", core.seed() * 1000 + k // chunk, chunk, path])
        events, bad, tr = core.trace_validate("Trace_Zerv", path, "c05-trace", marker=True)
        tev += len(events)
        tbad += len(bad)
        states += tr["distinct"]
        trans += tr["states"]
        for i, ev in bad:
            v.add([dict(key=trace_key(ev), line=i, trace=path, argv=ev["argv"], observed=ev["out"])])
    core.log("  validated %d recorded runs, %d rejected" % (tev, tbad))
    # the same law at the top of the number range (values 2^31 .. 2^64 as decimal texts, BigNum.tla)
    nbig = 6000 if tier == "quick" else 60000
    bev = bbad = 0
    for k in range(0, nbig, 6000):
        path = os.path.join(core.BUILD, "c05-big-%d.ndjson" % k)
        core.zv(["record", "bigbump", core.seed() * 1000 + 700 + k // 6000, 6000, path])
        events, bad, tr = core.trace_validate("Trace_BigBump", path, "c05-big")
        bev += len(events)
        bbad += len(bad)
        states += tr["distinct"]
        trans += tr["states"]
        for i, ev in bad:
            v.add([dict(key="C05:panic" if ev.get("_reason") == "panic" else "C05:big-number-" + ev.get("_reason", "?"), line=i, trace=path, argv=ev["argv"],
                        observed=dict(kind=ev["out"]["kind"], text=ev["out"].get("text", "")[:200], values=[core.cp_text(x) for x in ev["out"]["v"]]))])
    tev += bev
    tbad += bbad
    core.log("  validated %d runs with u64-range numbers (Trace_BigBump), %d rejected" % (bev, bbad))
    cov = dict(states=states, transitions=trans, traces_validated_against_impl=evals + tev, samples=samples,
               evaluations=evals + tev, distinct_nontrivial=nontrivial,
               rule="Gen: every behaviour of ZervModel in three argument spaces: names = all subsets of "
                    "{override, bump%s} on the 7 numeric levels x label {none, override, bump} x 3 start versions; "
                    "index = one or two index-addressed operations (sections x kinds x in/out-of-range and negative "
                    "indices x numeric/text/negative/absent values) on a schema with var/uint/str/ts/VCS/custom "
                    "components x by-name combinations; vcs = distance/dirty/no-dirty/clean/branch/timestamp/"
                    "context-control flags x 8 presets x start versions; order = 6 precedence orders (incl. the empty one) x bump subsets x index "
                    "operations; tmpl = {{ major }} / {{ minor }} / {{ patch }} / {{ distance }} / {{ post }} as flag values. "
                    "Each runs under two flag permutations. "
                    "non-trivial = the result differs from the start version. Trace: %d random runs."
                    % (", both" if tier != "quick" else "", tev),
               exhaustive=True, recorded_events=tev, apalache=apalache)
    return v.finish(tier, "model_checking", cov,
                    ["TLC and the CommunityModules JSON reader",
                     "ZervModel.tla (stepwise machine) and the closed-form law are two formulations tied by TLC",
                     "numbers are kept below 2^30 (TLC integers are 32-bit); overflow behaviour belongs to C13",
                     "an index-addressed operation acts at its section's step of the walk with the addressed variable's reset scope (DESIGN section 3.3)"])


def replay(path):
    return core.replay_generic(path)
