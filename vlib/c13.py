"""C13 - zerv fails cleanly: it never panics and never prints a result on failure.

Spec : Cli.tla - the outcome protocol (Ok | CleanError; panic, signal, result on failure,
       silent failure, diagnostics on stdout, verbose changing stdout are the bad outcomes),
       the fault modes of a git sub-process and the argument / stdin value classes.
MC/Gen: MC_Cli (plans) - a run is a sequence of K git calls (K measured on the current build
       for 4 repository scenarios x {version, flow}); TLC walks the calls and injects one
       (thorough: two) fault(s) of any of 15 modes at any call: every completed walk is a plan
       executed by the real binary behind a `git` shim.  MC_Cli (args) - every
       (sub-command, option, value class, stdin class, -v) combination, options taken from the
       clap definitions of the current build, concretised and run with the real binary.
Trace: all those runs plus seeded random multi-option vectors and special situations (git
       missing, not a repository, no commits/tags) are judged by Trace_Cli against the protocol.
"""
import json
import os

from . import core


def cfg(mode, faults):
    return "SPECIFICATION Spec\nCONSTANTS\n  Mode = \"%s\"\n  MaxFaults = %d\nINVARIANTS EmitLine\nCHECK_DEADLOCK FALSE\n" % (mode, faults)


def key_of(ev):
    why = ev.get("_reason", "?")
    if why == "panic":
        site = ev.get("panic_site") or "unknown"
        return "C13:panic@" + site
    return "C13:" + why


def judge(v, path, name):
    events, bad, tr = core.trace_validate("Trace_Cli", path, name, timeout=7200)
    for i, ev in bad:
        v.add([dict(key=key_of(ev), line=i, trace=path, argv=ev["argv"], extra=ev["extra"], status=ev["o"]["status"],
                    signal=ev["o"]["signal"], stdout=core.cp_text(ev["o"]["out"])[:200], stderr=ev["stderr_head"][:300])])
    return events, bad, tr


def run(tier):
    v = core.Verdict("C13")
    params = os.path.join(core.BUILD, "c13-params.json")
    p = core.zv(["measure", "cli", params])
    core.log("C13: git calls per scenario %s; options per sub-command %s" % (p["ks"], p["nflags"]))
    env = {"ZV_PARAMS": params}
    states = trans = tev = tbad = 0
    samples = []
    faults = 1 if tier == "quick" else 2
    for mode, mf in (("plans", faults), ("args", 1)):
        r = core.tlc("MC_Cli", cfg(mode, mf), "c13-" + mode, workers=8, timeout=7200, env_extra=env)
        lines = sum(1 for l in open(r["out_path"]) if l.startswith('"REPLAY'))
        out = r["out_path"]
        if mode == "plans" and lines > 12000:
            # two-fault plans: keep every single-fault plan and a seeded sample of the rest
            import random
            rnd = random.Random(core.seed())
            keep = os.path.join(core.BUILD, "c13-plans-sample.out")
            with open(out) as fi, open(keep, "w") as fo:
                for l in fi:
                    if l.startswith('"REPLAY') and (l.count('\\"at\\"') < 2 or rnd.random() < 10000.0 / lines):
                        fo.write(l)
            out = keep
        path = os.path.join(core.BUILD, "c13-%s.ndjson" % mode)
        core.zv(["replay", "cli", out, path, core.seed()], timeout=14400)
        events, bad, tr = judge(v, path, "c13-" + mode)
        core.log("  %s: %d generated, %d executed with the real binary, %d rejected" % (mode, lines, len(events), len(bad)))
        states += r["distinct"] + tr["distinct"]
        trans += r["states"] + tr["states"]
        tev += len(events)
        tbad += len(bad)
        samples += [dict(argv=e["argv"], extra=e["extra"], status=e["o"]["status"]) for e in events[:2]]
        os.remove(r["out_path"])
    # beyond the property: which input a run reads (Input.tla) - the machine's invariants are checked by TLC and
    # each of its runs is a run of the binary; a deviation is reported as X:input-selection, not as a C13 violation
    ri = core.tlc("MC_Input", "SPECIFICATION Spec\nINVARIANTS ExplicitWins SmartDefault StdinIgnoredUnlessSource DirectoryOnlyForGit "
                  "DashCReplacesCwd NoVersionFromBadStdin EmitLine\nCHECK_DEADLOCK FALSE\n", "c13-input", workers=4, timeout=600)
    repi = core.zv(["replay", "input", ri["out_path"]], timeout=3600)
    core.log("  input selection (Input.tla): %d runs of the machine, %d runs of the binary, %d deviations"
             % (ri["distinct"] // 5, repi["evaluations"], repi["mismatch_count"]))
    if repi["evaluations"] == 0:
        raise core.ToolError("no input-selection run generated")
    v.add(repi["mismatches"])
    states += ri["distinct"]
    trans += ri["states"]
    os.remove(ri["out_path"])
    n = 8000 if tier == "quick" else 150000
    for k in range(0, n, 8000):
        path = os.path.join(core.BUILD, "c13-rand-%d.ndjson" % k)
        core.zv(["record", "cli", core.seed() * 1000 + k // 8000, 8000, path], timeout=14400)
        events, bad, tr = judge(v, path, "c13-rand")
        tev += len(events)
        tbad += len(bad)
        states += tr["distinct"]
        trans += tr["states"]
    core.log("  %d runs of the real binary judged, %d rejected" % (tev, tbad))
    cov = dict(states=states, transitions=trans, traces_validated_against_impl=tev, samples=samples,
               evaluations=tev, distinct_nontrivial=tev,
               rule="Fault plans: every position (K = %s) x 15 fault modes, %d fault(s) per run, 8 scenario/command pairs. "
                    "Argument classes: %s options x 15 value classes x 6 stdin classes x {quiet, -v}. Random: %d multi-option "
                    "vectors (75%% plausible values) and special situations. Every run is one evaluation." % (p["ks"], faults, p["nflags"], n),
               exhaustive=True, git_calls=p["ks"], options=p["nflags"])
    return v.finish(tier, "fault_enumeration", cov,
                    ["TLC and the CommunityModules JSON reader", "the git shim passes every non-faulted call to the real git",
                     "stdout of a successful semver / pep440 run is judged with the grammar modules; other formats only for diagnostics",
                     "a run that exceeds 20 s is reported as a signal outcome"])


def replay(path):
    return core.replay_generic(path)
