"""C14 - output is deterministic and independent of the environment.

Spec : Trace_Env - a memo per input: the first run of an input fixes the answer and every later
       run of the same input (another TZ, locale, working directory, unrelated variables,
       a separate process, a plain repeat) must reproduce it; runs that carry a calendar
       instant must start with the UTC date given by Calendar.tla.
Trace: ~250 inputs - CalVer presets, ts(...) schema components and format_timestamp templates
       at instants within +-14 h of day / month / year boundaries, flow branch hashes for several
       branch names and lengths, non-ASCII branch names through sanitising and Tera filters,
       stdin RON, render / check, three git repositories addressed with absolute and relative
       -C from different working directories - each run N times with the real binary under
       TZ in {UTC, Pacific/Kiritimati, Pacific/Pago_Pago, Asia/Kolkata} x LANG/LC_ALL in
       {C, C.UTF-8, de_DE.UTF-8, tr_TR.UTF-8} x random unrelated variables x cwd.
"""
import json
import os

from . import core


def run(tier):
    v = core.Verdict("C14")
    per = 8 if tier == "quick" else 60
    path = os.path.join(core.BUILD, "c14-trace.ndjson")
    info = core.zv(["record", "env", core.seed(), per, path], timeout=14400)
    events, bad, tr = core.trace_validate("Trace_Env", path, "c14-trace", timeout=7200)
    for i, ev in bad:
        why = ev.get("_reason", "?")
        first = next(e for e in events if e["input"] == ev["input"])
        v.add([dict(key="C14:" + why, line=i, trace=path, argv=ev["argv"], tz=ev["tz"], locale=ev["locale"], cwd=ev["cwd"],
                    status=ev["status"], output=core.cp_text(ev["out"])[:300],
                    first_observation=dict(tz=first["tz"], locale=first["locale"], output=core.cp_text(first["out"])[:300]))])
    ok0 = sum(1 for e in events if e["status"] == 0)
    core.log("C14: %d inputs x %d environments = %d runs of the real binary (%d successful), %d rejected"
             % (info["inputs"], per, len(events), ok0, len(bad)))
    if ok0 * 2 < len(events):
        raise core.ToolError("most inputs fail: the environment matrix would be vacuous")
    samples = [dict(argv=e["argv"], tz=e["tz"], locale=e["locale"], output=core.cp_text(e["out"])[:120]) for e in events[2:40:13]]
    cov = dict(states=tr["distinct"], transitions=tr["states"], traces_validated_against_impl=len(events), samples=samples,
               evaluations=len(events), distinct_nontrivial=info["inputs"],
               rule="%d inputs (see module docstring) x %d runs each: the first two in the plain environment (repeatability), "
                    "the others under a random TZ x locale x unrelated variables x working directory. distinct_nontrivial = "
                    "distinct inputs. The only masked field is a decimal number within 60 s of the wall clock." % (info["inputs"], per),
               exhaustive=False, successful_runs=ok0)
    return v.finish(tier, "model_checking", cov,
                    ["TLC and the CommunityModules JSON reader", "tzdata is installed; only the C / C.UTF-8 / POSIX locales exist on this image, other LANG values are exported anyway (what a user without that locale gets)",
                     "the memo says 'a function of the input'; which function is decided by the other properties' specifications"])


def replay(path):
    return core.replay_generic(path)
