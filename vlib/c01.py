"""C01 - every emitted version string is well-formed in the requested format.

MC   : MC_Render - for every rule-conforming schema in the bound and three assignments the
       SemVer rendering is in the SemVer language and the PEP 440 rendering is an accepted
       fixed point of normalisation, ASCII only (C01 as a theorem of Render o Sanitizer).
Trace: every stdout line of (i) the whole-command runs generated from MC_Zerv (sources none,
       presets and custom schemas, overrides, bumps, prefixes), and (ii) a dedicated recorder
       that puts hostile text (Unicode, NUL, quotes, 30-digit numbers with leading zeros, empty)
       in every free-text position under all 22 presets and random valid schemas with random
       flags - judged by Trace_Output with the grammar modules: exactly the prefix + one
       well-formed ASCII version, accepted by zerv's own check, unchanged by re-rendering
       (presets).  Flow outputs are judged the same way inside C04 (Trace_Flow.WellFormed).
"""
import os

from . import core
from .c05 import cfg as zerv_cfg
from .c06 import cfg as render_cfg


def run(tier):
    v = core.Verdict("C01")
    bounds = (2, 2, 1) if tier == "quick" else (3, 2, 1)
    r = core.tlc("MC_Render", render_cfg(*bounds).replace("Emit = TRUE", "Emit = FALSE"), "c01-mc", workers=12, timeout=7200)
    core.log("C01: TLC MC_Render %s (design theorem): %d schemas x 3 assignments, %.1fs" % (bounds, r["distinct"], r["wall"]))
    states, trans = r["distinct"], r["states"]
    traces = []
    for mode, ch in ([("vcs", "{0}")] if tier == "quick" else [("vcs", "{0}"), ("index", "{0}"), ("names", "{0, 1, 2}")]):
        rz = core.tlc("MC_Zerv", zerv_cfg(mode, ch), "c01-" + mode, workers=12, timeout=7200)
        obs = os.path.join(core.BUILD, "c01-out-%s.ndjson" % mode)
        rep = core.zv(["replay", "pipe", rz["out_path"], obs, core.seed()], timeout=14400)
        # (rendering mismatches are C12's business; here only the logged output lines matter)
        traces.append(obs)
        states += rz["distinct"]
        trans += rz["states"]
        os.remove(rz["out_path"])
    n = 16000 if tier == "quick" else 200000
    for k in range(0, n, 8000):
        path = os.path.join(core.BUILD, "c01-trace-%d.ndjson" % k)
        core.zv(["record", "pipe", core.seed() * 1000 + k // 8000, 8000, path], timeout=14400)
        traces.append(path)
    tev = tbad = 0
    samples = []
    for path in traces:
        events, bad, _ = core.trace_validate("Trace_Output", path, "c01-trace")
        tev += len(events)
        tbad += len(bad)
        samples += [dict(format=e["fmt"], output=core.cp_text(e["text"])) for e in events[:2] if e["k"] == "out"]
        for i, ev in bad:
            why = ev.get("_reason", "?")
            if ev["k"] == "panic":
                v.add([dict(key="C01:panic", argv=ev["argv"], stdin=ev["stdin"][:500], message=ev["text"][:300])])
            else:
                v.add([dict(key="C01:" + why, line=i, trace=path, format=ev["fmt"], output=core.cp_text(ev["text"]),
                            prefix=core.cp_text(ev["prefix"]), origin=ev["origin"], check=ev["check"], preset=ev["preset"],
                            rerendered=core.cp_text(ev["rerender"]["s"]))])
    # the git source: default outputs of version / flow after every operation of random git sessions
    from .c02 import TRACE_CFG as GIT_TRACE_CFG
    sessions = 100 if tier == "quick" else 1500
    gitlines = 0
    for k in range(0, sessions, 100):
        path = os.path.join(core.BUILD, "c01-git-%d.ndjson" % k)
        core.zv(["record", "gitrepo", core.seed() * 1000 + 700 + k // 100, 100, path], timeout=14400)
        saved = core.TRACE_CFG
        core.TRACE_CFG = GIT_TRACE_CFG
        try:
            events, bad, tr = core.trace_validate("Trace_GitRepo", path, "c01-git", marker=True)
        finally:
            core.TRACE_CFG = saved
        gitlines += sum(1 for e in events if e["k"] == "gitout")
        for i, ev in bad:
            if ev.get("_reason") == "git-output-not-wellformed":
                tbad += 1
                v.add([dict(key="C01:git-output-not-wellformed", line=i, trace=path, command=ev["cmd"], format=ev["fmt"], output=core.cp_text(ev["text"]))])
    tev += gitlines
    core.log("  %d output lines from the git source (version / flow after every operation of %d sessions)" % (gitlines, sessions))
    distinct = tev
    core.log("  judged %d output lines with Trace_Output, %d rejected" % (tev, tbad))
    cov = dict(states=states, transitions=trans, traces_validated_against_impl=tev, samples=samples[:6],
               evaluations=tev, distinct_nontrivial=distinct,
               rule="Design theorem on MC_Render %s. Output lines: a sample of the whole-command runs generated from MC_Zerv "
                    "(direct and with --output-prefix) and %d runs of the hostile-text recorder (all 22 presets / random valid "
                    "schemas x random flags x both formats); every line is judged; distinct_nontrivial = lines judged." % (bounds, n),
               exhaustive=False, recorded_events=tev)
    return v.finish(tier, "model_checking", cov,
                    ["TLC and the CommunityModules JSON reader", "SemVerGrammar / Pep440Grammar (not zerv's regexes) decide validity",
                     "commit hashes are kept ASCII (non-ASCII hashes are a C13 matter: byte slicing)"])


def replay(path):
    return core.replay_generic(path)
