"""C10 - SemVer comparison is SemVer 2.0.0 precedence.

MC  : MC_SemVerOrder - SvCmp (section 11 of the standard, on parsed values) is reflexive,
      antisymmetric, total, transitive and 'equal iff same' on the universe
      {0,1,2,10}^3 + {1.0.0,1.0.1} x identifier lists over {0 2 10 A a a0}.
Gen : one row per ordered pair (printed versions, some with build metadata, expected cmp);
      the harness parses both strings and checks cmp, reverse cmp and ==.
Trace: random pairs with numbers up to u64, sort() results and find_max_version_tag
      results recorded from the code and judged by Trace_Order.
"""
from . import order_common


def cfg(prelen, translen):
    return """SPECIFICATION Spec
CONSTANTS
  Emit = TRUE
  PreLen = %d
  TransLen = %d
INVARIANTS Reflexive Antisymmetric EqualIffSame Transitive PrintParse EmitLine
CHECK_DEADLOCK FALSE
""" % (prelen, translen)


def run(tier):
    prelen, translen, n = (2, 2, 40000) if tier == "quick" else (3, 2, 300000)
    return order_common.run(
        "C10", "semver", "MC_SemVerOrder", cfg(prelen, translen), tier,
        "Gen: all %%(rows)d ordered pairs of the universe {0,1,2,10}^3 release-only versions + {1.0.0,1.0.1} x "
        "identifier lists of length <= %d over {0 2 10 A a a0}, every third row with build metadata; "
        "non-trivial = strictly ordered. Transitivity on the specification for all triples whose third "
        "element has <= %d identifiers. Trace: %%(tev)d random comparisons / sorts / max-tag selections "
        "with numbers up to u64." % (prelen, translen),
        ["TLC and the CommunityModules JSON reader",
         "SemVerOrder.tla transcribes SemVer 2.0.0 section 11; because the code agrees row by row with a relation that TLC shows to be a total order on the universe, the code is a total order there"],
        n)


replay = order_common.replay
