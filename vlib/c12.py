"""C12 - Zerv RON is a lossless interchange format and invalid objects are refused.

MC   : MC_Schema - every schema up to the bound over an alphabet with misplaced / duplicated
       variables and an unknown timestamp pattern, classified by the placement rules
       (ValidSchema, written from the documentation).  MC_Zerv - every behaviour of the version
       machine ends with a schema that satisfies the rules (SchemaStaysValid).
Gen  : (a) each schema as the stdin schema in effect: accepted iff valid, refused without output
       otherwise, and irrelevant when --schema overrides it.  (b) each ZervModel behaviour is run
       as a producer with --output-format zerv; the document is parsed back (identical object),
       re-emitted (byte-identical) and piped into `version --source stdin`: the piped semver and
       pep440 renderings equal the direct ones and the rendering the specification predicts
       (ZervModel ; Render).
Trace: objects with hostile strings and custom JSON of every shape: parse-back, re-emission,
       direct vs piped rendering (semver, pep440, template); certainly malformed documents
       (unbalanced, trailing garbage, two documents, empty) must be refused - Trace_Pipe.
"""
import os

from . import core
from .c05 import cfg as zerv_cfg


def schema_cfg(total):
    return "SPECIFICATION Spec\nCONSTANTS\n  MaxTotal = %d\n  Emit = TRUE\nINVARIANTS EmitLine\nCHECK_DEADLOCK FALSE\n" % total


def run(tier):
    v = core.Verdict("C12")
    total = 3 if tier == "quick" else 4
    r1 = core.tlc("MC_Schema", schema_cfg(total), "c12-schema", workers=12, timeout=7200)
    rep1 = core.zv(["replay", "schema", r1["out_path"]], timeout=14400)
    core.log("C12: %d schemas (<= %d components), %d invalid; %d runs, %d mismatches"
             % (r1["distinct"], total, rep1["nontrivial"], rep1["evaluations"], rep1["mismatch_count"]))
    v.add(rep1["mismatches"])
    os.remove(r1["out_path"])
    states, trans = r1["distinct"], r1["states"]
    evals, samples = rep1["evaluations"], rep1["samples"][:2]
    modes = [("vcs", "{0}"), ("index", "{0}"), ("order", "{0}")] if tier == "quick" else [("vcs", "{0}"), ("index", "{0}"), ("order", "{0}"), ("names", "{0, 1, 2}")]
    for mode, ch in modes:
        r = core.tlc("MC_Zerv", zerv_cfg(mode, ch), "c12-" + mode, workers=12, timeout=7200)
        obs = os.path.join(core.BUILD, "c12-out-%s.ndjson" % mode)
        rep = core.zv(["replay", "pipe", r["out_path"], obs, core.seed()], timeout=14400)
        core.log("  producer/consumer over MC_Zerv mode %s: %d runs, %d mismatches" % (mode, rep["evaluations"], rep["mismatch_count"]))
        v.add(rep["mismatches"])
        states += r["distinct"]
        trans += r["states"]
        evals += rep["evaluations"]
        samples += rep["samples"][:2]
        os.remove(r["out_path"])
    n = 12000 if tier == "quick" else 150000
    tev = tbad = 0
    for k in range(0, n, 12000):
        path = os.path.join(core.BUILD, "c12-trace-%d.ndjson" % k)
        core.zv(["record", "ron", core.seed() * 1000 + k // 12000, 12000, path])
        events, bad, _ = core.trace_validate("Trace_Pipe", path, "c12-trace")
        tev += len(events)
        tbad += len(bad)
        for i, ev in bad:
            why = ev.get("_reason", "?")
            m = dict(key="C12:" + why, line=i, trace=path)
            if ev["k"] == "malformed":
                m.update(kind=ev["kind"], outcome=ev["outcome"], document_tail=core.cp_text(ev["doc"])[-160:])
            else:
                m.update(document=core.cp_text(ev["ron"]), direct=core.cp_text(ev["direct_sv"]), piped=ev["piped_sv"]["kind"])
            v.add([m])
    core.log("  validated %d hostile round trips / malformed documents, %d rejected" % (tev, tbad))
    cov = dict(states=states, transitions=trans, traces_validated_against_impl=evals + tev, samples=samples,
               evaluations=evals + tev, distinct_nontrivial=rep1["nontrivial"],
               rule="Gen (a): every schema with <= %d components in total over {Major Minor Patch Epoch PreRelease Post Dev "
                    "Distance str uint ts(YYYY) ts(QQ)} as stdin schema in 3 output formats, and overridden by --schema; "
                    "non-trivial = schemas the rules reject. Gen (b): every non-error behaviour of MC_Zerv modes %s as "
                    "producer | consumer. Trace: %d hostile objects / malformed documents."
                    % (total, "+".join(m for m, _ in modes), tev),
               exhaustive=True, recorded_events=tev)
    return v.finish(tier, "model_checking", cov,
                    ["TLC and the CommunityModules JSON reader",
                     "RON's concrete syntax is not specified in TLA+: text is opaque, fidelity is judged by equality of objects, bytes and renderings",
                     "'not valid RON' is exercised with certainly malformed documents only (unbalanced, trailing garbage, two documents, empty); serde's tolerance of unknown or missing optional fields is not a refusal the property asks for"])


def replay(path):
    return core.replay_generic(path)
