"""C07 - format conversion is faithful: zerv reads back its own versions unchanged.

MC  : MC_Convert - for every canonical-shape version in the bound the SemVer text is in the
      SemVer language and prints back, the PEP 440 image is an accepted normal form.
      MC_ToZerv - the SemVer -> Zerv identifier machine (ToZerv.tla) composed with Render.tla: both
      renderings of every identifier list in the bound are well-formed and canonical lists are unchanged.
Gen : each version goes through `zerv render` (in-process) in the four directions; expected:
      SemVer unchanged, the PEP 440 image, back to the original, every output a fixed point of
      re-conversion; with a numeral beyond the format's range (2^32, 2^64, 25 digits, one
      slot at a time): rejected, or no numeral replaced by another.
Trace: arbitrary accepted PEP 440 strings in random spellings, arbitrary accepted SemVer strings
      and label-heavy identifier lists, converted and re-converted, judged by Trace_Convert
      with the grammar and order modules (normal form, well-formedness, fixed points, equality
      of the round trip for <= 3 release numbers).  Every 7th event is a format auto-detection
      event (`render -f auto`, `check` without --format) judged by AutoEvent - behaviour beyond
      C07's statement, so a deviation is reported as SPEC-DEVIATION (key X:...), not as a violation.
"""
import os

from . import core


def cfg(small):
    return """SPECIFICATION Spec
CONSTANTS
  Emit = TRUE
  Small = %s
INVARIANTS SemVerTextIsSemVer PepTextIsNormal EmitLine
CHECK_DEADLOCK FALSE
""" % small


def run(tier):
    v = core.Verdict("C07")
    small = '{"0", "5"}' if tier == "quick" else '{"0", "1", "10"}'
    r = core.tlc("MC_Convert", cfg(small), "c07-mc", workers=12, timeout=7200)
    core.log("C07: TLC MC_Convert: %d canonical versions, %.1fs" % (r["distinct"], r["wall"]))
    rep = core.zv(["replay", "convert", r["out_path"]], timeout=14400)
    core.log("  replayed %d conversions (%d versions fully in range), %d mismatches"
             % (rep["evaluations"], rep["nontrivial"], rep["mismatch_count"]))
    if rep["evaluations"] == 0:
        raise core.ToolError("nothing generated")
    v.add(rep["mismatches"])
    os.remove(r["out_path"])
    # the SemVer -> Zerv identifier machine (ToZerv.tla) on arbitrary label-heavy identifier lists
    tz_len = 4 if tier == "quick" else 5
    rz = core.tlc("MC_ToZerv", "SPECIFICATION Spec\nCONSTANTS\n  MaxLen = %d\n  Emit = TRUE\nINVARIANTS RenderingsWellFormed CanonicalUnchanged EmitLine\nCHECK_DEADLOCK FALSE\n" % tz_len,
                  "c07-tozerv", workers=12, timeout=7200)
    repz = core.zv(["replay", "tozerv", rz["out_path"]], timeout=14400)
    core.log("  ToZerv machine: %d identifier lists (<= %d identifiers), %d renderings replayed, %d mismatches"
             % (rz["distinct"], tz_len, repz["evaluations"], repz["mismatch_count"]))
    v.add(repz["mismatches"])
    os.remove(rz["out_path"])
    rp = core.tlc("MC_PepToZerv", "SPECIFICATION Spec\nCONSTANTS\n  Emit = TRUE\nINVARIANTS PepIsFixedPoint SemVerIsSemVer EmitLine\nCHECK_DEADLOCK FALSE\n",
                  "c07-peptozerv", workers=8, timeout=7200)
    repp = core.zv(["replay", "tozerv", rp["out_path"], "pep440"], timeout=14400)
    core.log("  PEP 440 -> Zerv: %d values (1-5 release numbers, local segments), %d renderings replayed, %d mismatches"
             % (rp["distinct"], repp["evaluations"], repp["mismatch_count"]))
    v.add(repp["mismatches"])
    os.remove(rp["out_path"])
    n = 20000 if tier == "quick" else 200000
    chunk = 20000
    tev = tbad = 0
    for k in range(0, n, chunk):
        path = os.path.join(core.BUILD, "c07-trace-%d.ndjson" % k)
        core.zv(["record", "convert", core.seed() * 1000 + k // chunk, chunk, path])
        events, bad, _ = core.trace_validate("Trace_Convert", path, "c07-trace")
        tev += len(events)
        tbad += len(bad)
        for i, ev in bad:
            obs = {f: ("panic" if x["panic"] else ((core.cp_text(x["s"]) if "s" in x else [core.cp_text(q) for q in x["lines"]]) if x["ok"] else "error"))
                   for f, x in ev.items() if isinstance(x, dict)}
            panic = any(x == "panic" for x in obs.values())
            v.add([dict(key="C07:panic" if panic else "X:format-auto-detection" if ev["k"] == "auto" else "C07:conversion", line=i, trace=path, kind=ev["k"],
                        input=core.cp_text(ev["s"]), observed=obs)])
    core.log("  validated %d recorded conversion chains, %d rejected" % (tev, tbad))
    cov = dict(states=r["distinct"] + rz["distinct"], transitions=r["states"] + rz["states"], traces_validated_against_impl=rep["evaluations"] + repz["evaluations"] + tev,
               samples=rep["samples"][:5], evaluations=rep["evaluations"] + tev, distinct_nontrivial=rep["nontrivial"],
               rule="Gen: canonical-shape versions: all 16 shapes x numbers %s in all 7 numeric slots x 3 labels x 4 "
                    "build-metadata choices, plus 2^32-1 / 2^32 / 2^64-1 / 2^64 / 25-digit numerals in one slot at a "
                    "time; each in 4 directions + re-conversion + round trip. distinct_nontrivial = versions with all "
                    "numbers in range. Trace: %d conversion chains from random PEP 440 / SemVer / label-heavy inputs."
                    % (small, tev),
               exhaustive=True, recorded_events=tev)
    return v.finish(tier, "model_checking", cov,
                    ["TLC and the CommunityModules JSON reader",
                     "Convert.tla is the shape and image stated by C07; grammar and order modules judge arbitrary inputs",
                     "'no number silently replaced' is read as: the numerals of an accepted output are those of the exact rendering (as a multiset)"])


def replay(path):
    return core.replay_generic(path)
