"""C06 - rendering places every schema component where the documented rules say.

MC  : MC_Render - schemas are grown component by component (only schemas satisfying the
      placement rules are kept); for every schema and three variable assignments the SemVer
      rendering is in the SemVer language and the PEP 440 rendering is an accepted fixed point
      of normalisation (C01 as a theorem of the design).
Gen : each (schema, assignment) is built as a real Zerv object and rendered through
      SemVer::from / PEP440::from and through `version --source stdin --output-format ...`;
      outputs must equal the specification's renderings.
      The smart-preset tier table is exercised by C05's "vcs" space (schema equality).
Trace: random valid schemas up to 4 components per section with Unicode text, numbers up to
      2^31-1, custom values and calendar instants, recomputed by TLC (Trace_Render).
"""
import os

from . import core


def cfg(mc, me, mb):
    return """SPECIFICATION Spec
CONSTANTS
  MaxCore = %d
  MaxExtra = %d
  MaxBuild = %d
  Emit = TRUE
INVARIANTS RenderInGrammar EmitLine
CHECK_DEADLOCK FALSE
""" % (mc, me, mb)


def run(tier, pid="C06"):
    v = core.Verdict(pid)
    bounds = (2, 2, 1) if tier == "quick" else (3, 2, 1)
    r = core.tlc("MC_Render", cfg(*bounds), pid.lower() + "-mc", workers=12, timeout=7200)
    core.log("%s: TLC MC_Render %s: %d states, %d distinct, %.1fs" % (pid, bounds, r["states"], r["distinct"], r["wall"]))
    rep = core.zv(["replay", "render", r["out_path"]], timeout=14400)
    core.log("  replayed %d renderings (%d distinct SemVer strings), %d mismatches"
             % (rep["evaluations"], rep["nontrivial"], rep["mismatch_count"]))
    if rep["evaluations"] == 0:
        raise core.ToolError("nothing generated")
    v.add(rep["mismatches"])
    os.remove(r["out_path"])
    # the smart-preset tier table, exhaustively: 22 presets x pre-release x post {unset, 0, 2} x distance x dirty
    from .c05 import cfg as zerv_cfg
    rt = core.tlc("MC_Zerv", zerv_cfg("tier", "{0}"), pid.lower() + "-tier", workers=12, timeout=7200)
    os.environ["ZV_KEY_PREFIX"] = "C06:smart-preset-tier"
    try:
        rept = core.zv(["replay", "zerv", rt["out_path"], core.seed()])
    finally:
        os.environ.pop("ZV_KEY_PREFIX", None)
    core.log("  tier table: %d preset x state cases (schema, variables), %d mismatches" % (rept["evaluations"], rept["mismatch_count"]))
    v.add(rept["mismatches"])
    os.remove(rt["out_path"])
    n = 20000 if tier == "quick" else 200000
    chunk = 20000
    tev = tbad = 0
    for k in range(0, n, chunk):
        path = os.path.join(core.BUILD, "%s-trace-%d.ndjson" % (pid.lower(), k))
        core.zv(["record", "render", core.seed() * 1000 + k // chunk, chunk, path])
        events, bad, _ = core.trace_validate("Trace_Render", path, pid.lower() + "-trace")
        tev += len(events)
        tbad += len(bad)
        for i, ev in bad:
            if ev.get("_reason") == "recorder-civil-fields":
                raise core.ToolError("the recorder's civil fields do not satisfy Calendar!ValidCivil: %r" % ev["st"])
            v.add([dict(key="C06:panic" if ev["panic"] else "C06:render", line=i, trace=path, schema=ev["sch"],
                        vars=ev["st"], observed=dict(semver=core.cp_text(ev["semver"]), pep440=core.cp_text(ev["pep440"])))])
    core.log("  validated %d recorded renderings, %d rejected" % (tev, tbad))
    cov = dict(states=r["distinct"], transitions=r["states"], traces_validated_against_impl=rep["evaluations"] + tev,
               samples=rep["samples"][:4], evaluations=rep["evaluations"] + tev, distinct_nontrivial=rep["nontrivial"],
               rule="Gen: every schema with <= %d core / %d extra_core / %d build components over 9/7/6-symbol component "
                    "alphabets (var, str incl. '007' and 'A..b', uint, ts, custom, VCS variables) that satisfies the "
                    "placement rules x 3 variable assignments (all set with hostile text; mostly unset with epoch 0 and "
                    "a label without number; no pre-release with empty-sanitising branch), through the library and the "
                    "stdin pipeline, both formats. distinct_nontrivial = distinct expected SemVer strings. "
                    "Trace: %d random schemas/assignments." % (bounds + (tev,)),
               exhaustive=True, recorded_events=tev)
    return v.finish(tier, "model_checking", cov,
                    ["TLC and the CommunityModules JSON reader",
                     "Render.tla is written from the documented placement rules; the grammar modules judge well-formedness",
                     "numbers stay below 2^31 (TLC integers); values above u32 are C07's no-silent-change clause",
                     "commit hashes are ASCII here (byte slicing of non-ASCII hashes is C13)"])


def replay(path):
    return core.replay_generic(path)
