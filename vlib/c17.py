"""C17 - timestamp patterns and CalVer components are the UTC calendar fields.

MC  : MC_Calendar - the successor automaton from 1970-01-01 reaches 2199-12-31 with
      well-formed dates, the right weekdays and the anchor dates (leap days, 2100).
Gen : for selected days (every Stride-th, all month/year/week-number boundaries) the 16
      pattern values at second 0, 86399 and a derived second are printed and compared with
      resolve_timestamp; on month boundaries the CalVer presets, ts("<pattern>") schema
      components and the last_timestamp fallback are run through the version pipeline.
Trace: random instants recorded under a non-UTC TZ, validated by Trace_Calendar, which
      walks the automaton (silent day steps between events).
"""
import os

from . import core


def cfg(stride):
    return """SPECIFICATION Spec
CONSTANTS
  LastDay = 84005
  Emit = TRUE
  Stride = %d
INVARIANTS WellFormed ClosedForm Anchors EmitLine
CHECK_DEADLOCK FALSE
""" % stride


def run(tier):
    v = core.Verdict("C17")
    stride = 7 if tier == "quick" else 1
    r = core.tlc("MC_Calendar", cfg(stride), "c17-mc", workers=2, timeout=3600)
    core.log("C17: TLC calendar walk: %d states, %.1fs" % (r["distinct"], r["wall"]))
    if r["distinct"] != 84006:
        raise core.ToolError("calendar walk incomplete")
    rep = core.zv(["replay", "calendar", r["out_path"]])
    core.log("  replayed %d field comparisons over %d days (%d pipeline runs), %d mismatches"
             % (rep["evaluations"], rep["nontrivial"], rep["extra"]["pipeline_runs"], rep["mismatch_count"]))
    v.add(rep["mismatches"])
    os.remove(r["out_path"])
    n = 20000 if tier == "quick" else 100000
    path = os.path.join(core.BUILD, "c17-trace.ndjson")
    env_tz = os.environ.get("TZ")
    os.environ["TZ"] = "Pacific/Kiritimati"
    try:
        core.zv(["record", "calendar", core.seed(), n, path])
    finally:
        if env_tz is None:
            del os.environ["TZ"]
        else:
            os.environ["TZ"] = env_tz
    events, bad, tr = core.trace_validate("Trace_Calendar", path, "c17-trace",
                                          extra_states=lambda evs: max([e["day"] for e in evs if e["k"] != "far"] or [0]))
    for i, ev in bad:
        if ev.get("_reason") == "recorder-civil-fields":
            raise core.ToolError("the recorder's civil fields do not satisfy Calendar!ValidCivil: %r" % ev)
        v.add([dict(key="C17:field", line=i, trace=path, pattern=ev["p"], timestamp=ev["day"] * 86400 + ev["sod"],
                    observed=core.cp_text(ev["out"]), tz=ev["tz"])])
    core.log("  validated %d recorded events (TZ=Pacific/Kiritimati), %d rejected" % (len(events), len(bad)))
    cov = dict(states=r["distinct"] + tr["distinct"], transitions=r["states"] + tr["states"],
               traces_validated_against_impl=rep["evaluations"] + len(events), samples=rep["samples"][:3],
               evaluations=rep["evaluations"] + len(events), distinct_nontrivial=rep["nontrivial"],
               rule="Gen: the single behaviour of the calendar automaton (84006 days); days selected = every "
                    "%d-th day plus all month, year, leap-day and week-number boundaries, each at 3 seconds-of-day "
                    "x 16 patterns; month boundaries also through `version --schema calver*`, a ts(<pattern>) "
                    "build component and the last_timestamp fallback. distinct_nontrivial = distinct days "
                    "compared. Trace: %d random instants." % (stride, len(events)),
               exhaustive=(stride == 1), days=rep["nontrivial"], pipeline_runs=rep["extra"]["pipeline_runs"])
    return v.finish(tier, "model_checking", cov,
                    ["TLC and the CommunityModules JSON reader",
                     "Calendar.tla: month lengths, Gregorian leap rule, 1970-01-01 is a Thursday; WW is the Monday-based week number with week 0 before the first Monday (strftime %W)"])


def replay(path):
    return core.replay_generic(path)
