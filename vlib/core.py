"""Shared machinery of the /verif checks: build, TLC, harness, evidence, findings.

Exit codes of a check: 0 = held on everything explored (KNOWN-FINDING lines allowed),
1 = VIOLATION (with a replay file), 2 = tool error (build failure, TLC crash, timeout).
"""
import json
import os
import re
import shutil
import subprocess
import sys
import time

VERIF = os.path.dirname(os.path.dirname(os.path.abspath(__file__)))
SPEC = os.path.join(VERIF, "spec")
BUILD = os.path.join(VERIF, ".build")
HARNESS = os.path.join(VERIF, "harness")
TARGET = os.path.join(BUILD, "target")
ZV = os.path.join(TARGET, "debug", "zv")
ZERV = os.path.join(TARGET, "debug", "zerv")
EVIDENCE = os.path.join(VERIF, "evidence")
REPLAYS = os.path.join(VERIF, "replays")
FINDINGS = os.path.join(VERIF, "known_findings.json")
JAR = "/opt/veriftools/tla/tla2tools.jar:/opt/veriftools/tla/CommunityModules-deps.jar"


class ToolError(Exception):
    pass


def log(msg):
    print(msg, flush=True)


def seed():
    try:
        # any integer is accepted; the harness wants a small non-negative one
        return abs(int(os.environ.get("VERIF_SEED", "1"))) % 1000000007
    except ValueError:
        return 1


# --------------------------------------------------------------------------- build
def build():
    """Rebuild the harness (and with it the zerv library and binary) from /repo's
    current working tree.  cargo decides what is stale; a no-op costs ~0.3 s."""
    os.makedirs(BUILD, exist_ok=True)
    lock = os.path.join(HARNESS, "Cargo.lock")
    if not os.path.exists(lock):
        shutil.copy("/repo/Cargo.lock", lock)
    env = dict(os.environ, CARGO_NET_OFFLINE="true")
    t0 = time.time()
    # serialise concurrent builds (checks may be started in parallel)
    import fcntl
    with open(os.path.join(BUILD, "build.lock"), "w") as lk:
        fcntl.flock(lk, fcntl.LOCK_EX)
        p = subprocess.run(["cargo", "build", "--offline", "--bins"], cwd=HARNESS, env=env,
                           stdout=subprocess.PIPE, stderr=subprocess.STDOUT, text=True)
    if p.returncode != 0:
        sys.stderr.write(p.stdout[-6000:])
        raise ToolError("cargo build of the harness failed")
    return time.time() - t0


# ----------------------------------------------------------------------------- TLC
STATS_RE = re.compile(r"(\d+) states generated, (\d+) distinct states found")


def tlc(module, cfg_text, name, workers=8, timeout=3600, out_path=None, env_extra=None,
        simulate=None, deque=False, xss=False, xmx=None, allow_violation=False):
    """Run TLC on spec/<module>.tla with the given cfg text.  Returns a dict with
    states/distinct/out_path/ok/violated.  Raises ToolError on crashes or timeouts."""
    os.makedirs(os.path.join(BUILD, "tlc"), exist_ok=True)
    tag = "%s-%d" % (name, os.getpid())
    cfg_path = os.path.join(BUILD, "tlc", tag + ".cfg")
    with open(cfg_path, "w") as f:
        f.write(cfg_text)
    meta = os.path.join(BUILD, "tlc", tag + ".meta")
    out_path = out_path or os.path.join(BUILD, "tlc", tag + ".out")
    jopts = []
    if xss:
        jopts.append("-Xss1g")
    if deque:
        jopts.append("-Dtlc2.tool.queue.IStateQueue=StateDeque")
    cmd = ["java", "-XX:+UseParallelGC"]
    if xmx:
        cmd.append("-Xmx" + xmx)
    cmd += jopts + ["-cp", JAR, "tlc2.TLC", "-workers", str(workers), "-metadir", meta,
                    "-cleanup", "-noGenerateSpecTE", "-config", cfg_path]
    if simulate:
        cmd += ["-simulate", simulate]
    cmd.append(module + ".tla")
    env = dict(os.environ)
    env.pop("JAVA_TOOL_OPTIONS", None)
    if env_extra:
        env.update(env_extra)
    t0 = time.time()
    with open(out_path, "w") as out:
        try:
            p = subprocess.run(cmd, cwd=SPEC, env=env, stdout=out, stderr=subprocess.STDOUT,
                               timeout=timeout)
        except subprocess.TimeoutExpired:
            shutil.rmtree(meta, ignore_errors=True)
            raise ToolError("TLC timed out on %s (%ds)" % (name, timeout))
    shutil.rmtree(meta, ignore_errors=True)
    states = distinct = 0
    violated = False
    errors = []
    with open(out_path, errors="replace") as f:
        for line in f:
            if line.startswith('"'):
                continue
            m = STATS_RE.search(line)
            if m:
                states, distinct = int(m.group(1)), int(m.group(2))
            if line.startswith("Error:"):
                errors.append(line.strip())
                if "is violated" in line or "violated" in line:
                    violated = True
    res = dict(states=states, distinct=distinct, out_path=out_path, wall=time.time() - t0,
               violated=violated, errors=errors, rc=p.returncode, cfg=cfg_path)
    if errors and not (violated and allow_violation):
        tail = subprocess.run(["grep", "-v", '^"', out_path], stdout=subprocess.PIPE, text=True).stdout[-3000:]
        raise ToolError("TLC reported errors on %s:\n%s" % (name, tail))
    if p.returncode != 0 and not errors:
        raise ToolError("TLC exited %d on %s (see %s)" % (p.returncode, name, out_path))
    return res


def tlc_lines(out_path, prefix):
    """Decode the TLC-printed strings that start with the given prefix."""
    res = []
    pre = '"' + prefix + " "
    with open(out_path, errors="replace") as f:
        for line in f:
            if line.startswith(pre):
                s = json.loads(line)
                res.append(json.loads(s[len(prefix) + 1:]))
    return res


TRACE_CFG = "SPECIFICATION Spec\nPOSTCONDITION AllConsumed\nCHECK_DEADLOCK FALSE\n"


def trace_validate(module, path, name, timeout=3600, xmx="6g", extra_states=None, marker=False):
    """Validate an ndjson trace with spec/<module>.tla.  Returns (events, bad) where bad is
    the list of (1-based line, event) that the specification rejects.  A trace that is not
    consumed to its end is a tool error (the trace spec itself is stuck)."""
    r = tlc(module, globals()["TRACE_CFG"], name, workers=1, deque=True, xss=True, xmx=xmx,
            env_extra={"TRACE": path}, timeout=timeout)
    bad = []
    reasons = {}
    consumed = None
    with open(r["out_path"], errors="replace") as f:
        for line in f:
            if line.startswith('"MISMATCH '):
                parts = json.loads(line).split()
                bad.append(int(parts[1]))
                if len(parts) > 2:
                    reasons[int(parts[1])] = parts[2]
            if line.startswith('"UNCONSUMED'):
                raise ToolError("trace %s not consumed: %s" % (path, line))
            if line.startswith('"CONSUMED '):
                consumed = int(json.loads(line).split()[1])
    events = [json.loads(x) for x in open(path)]
    extra = extra_states(events) if extra_states else 0
    if marker:
        if consumed != len(events):
            raise ToolError("trace %s: %d events but consumed %s" % (path, len(events), consumed))
    elif r["distinct"] != len(events) + 1 + extra:
        raise ToolError("trace %s: %d events but %d states" % (path, len(events), r["distinct"]))
    for i, why in reasons.items():
        events[i - 1]["_reason"] = why
    return events, [(i, events[i - 1]) for i in bad], r


# ------------------------------------------------------------------------- harness
def zv(args, timeout=7200, stdin=None):
    """Run the harness; it prints one JSON report on stdout."""
    env = dict(os.environ)
    p = subprocess.run([ZV] + [str(a) for a in args], stdout=subprocess.PIPE, stderr=subprocess.PIPE,
                       text=True, timeout=timeout, stdin=subprocess.DEVNULL if stdin is None else stdin,
                       env=env)
    if p.returncode != 0:
        raise ToolError("harness %s failed (%d): %s" % (" ".join(map(str, args)), p.returncode, p.stderr[-3000:]))
    try:
        return json.loads(p.stdout)
    except json.JSONDecodeError:
        raise ToolError("harness %s printed no JSON report: %s" % (args, p.stdout[-2000:]))


# ------------------------------------------------------------------------ findings
def load_findings():
    if not os.path.exists(FINDINGS):
        return []
    with open(FINDINGS) as f:
        return json.load(f)["findings"]


class Verdict:
    """Collects mismatches of one check run, keys them, separates known findings."""

    def __init__(self, pid):
        self.pid = pid
        self.mismatches = []      # dicts with at least 'key'
        self.known = {}
        self.t0 = time.time()
        self.open = {f["key"]: f for f in load_findings()
                     if f["property"] == pid and f.get("status") == "open"}

    def add(self, ms):
        for m in ms:
            self.mismatches.append(m)

    def finish(self, tier, level, coverage, assumptions):
        # keys "X:..." belong to behaviour the specification covers beyond the listed properties:
        # a deviation there is reported (SPEC-DEVIATION, evidence) but is no violation of the property
        extra = [m for m in self.mismatches if str(m.get("key")).startswith("X:")]
        self.mismatches = [m for m in self.mismatches if not str(m.get("key")).startswith("X:")]
        for k in sorted({m["key"] for m in extra}):
            first = [m for m in extra if m["key"] == k][0]
            log("SPEC-DEVIATION (outside the listed properties, not a violation): %s x%d first=%s"
                % (k, sum(1 for m in extra if m["key"] == k), json.dumps(first)[:600]))
        coverage["beyond_property_deviations"] = sorted({m["key"] for m in extra})
        unknown = [m for m in self.mismatches if m.get("key") not in self.open]
        known = [m for m in self.mismatches if m.get("key") in self.open]
        seen = {}
        for m in known:
            seen.setdefault(m["key"], m)
        for k, m in seen.items():
            log("KNOWN-FINDING: property=%s %s -- %s" % (self.pid, k, self.open[k]["what"]))
        ev = dict(property_id=self.pid, tier=tier, seed=seed(), level=level, coverage=coverage,
                  assumptions=assumptions, wall_s=round(time.time() - self.t0, 2),
                  violations=len(unknown))
        ev["coverage"]["known_findings_hit"] = sorted(seen)
        os.makedirs(EVIDENCE, exist_ok=True)
        with open(os.path.join(EVIDENCE, self.pid + ".json"), "w") as f:
            json.dump(ev, f, indent=1, sort_keys=True)
            f.write("\n")
        if unknown:
            os.makedirs(REPLAYS, exist_ok=True)
            path = os.path.join(REPLAYS, "%s-%s-%d.json" % (self.pid, tier, seed()))
            with open(path, "w") as f:
                json.dump(dict(property=self.pid, tier=tier, seed=seed(),
                               count=len(unknown), violations=unknown[:200],
                               rerun="./check %s --replay %s" % (self.pid, path)), f, indent=1)
                f.write("\n")
            by = {}
            for m in unknown:
                by[m.get("key")] = by.get(m.get("key"), 0) + 1
            log("violations by key: %s" % json.dumps(by, sort_keys=True))
            log("first: %s" % json.dumps(unknown[0])[:1500])
            log("VIOLATION property=%s replay=%s" % (self.pid, path))
            return 1
        log("OK property=%s tier=%s wall=%.1fs" % (self.pid, tier, time.time() - self.t0))
        return 0


def cp_text(cps):
    return "".join(chr(c) for c in cps)


def text_cp(s):
    return [ord(c) for c in s]


def replay_generic(path):
    """Re-run what a violation file records against the current build, as far as it can be re-run:
    an `argv` is executed with the zerv binary (stdin from the record when present) and its outcome is
    shown next to the recorded expectation; other records are printed.  Exit 1 while the file lists
    violations (the file is a record of a failed run; re-run the check itself for a fresh verdict)."""
    d = json.load(open(path))
    log("replay of %s: property %s, %d violation(s) recorded (showing up to 20)" % (path, d.get("property"), d.get("count", 0)))
    for m in d.get("violations", [])[:20]:
        log("- key=%s" % m.get("key"))
        argv = m.get("argv") or m.get("argv1")
        if isinstance(argv, list) and argv and all(isinstance(a, str) for a in argv):
            stdin = m.get("stdin")
            try:
                p = subprocess.run([ZERV] + argv, input=stdin if isinstance(stdin, str) else None,
                                   stdin=None if isinstance(stdin, str) else subprocess.DEVNULL,
                                   stdout=subprocess.PIPE, stderr=subprocess.PIPE, text=True, timeout=30)
                log("  now: zerv %s -> exit %d stdout=%r stderr=%r" % (" ".join(argv)[:300], p.returncode, p.stdout[:300], p.stderr[:200]))
            except Exception as e:  # noqa: BLE001
                log("  could not re-run: %r" % e)
        for f in ("expected", "expected_any_of", "observed", "why", "reason", "ops", "input", "s", "in", "cfg", "output"):
            if f in m:
                log("  %s: %s" % (f, json.dumps(m[f], ensure_ascii=False)[:400]))
    return 1 if d.get("violations") else 0
