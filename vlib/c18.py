"""C18 - the Python API is a faithful wrapper of the CLI.

Spec : PyApi.tla - _extend_args as a machine (None / False add nothing, True adds the bare flag,
       anything else flag + str(value)); the keyword -> option rule written from the CLI contract
       (foo_bar -> --foo-bar, five short aliases).
MC   : MC_PyApi - TableOk: every keyword of the four functions (taken from the signatures of
       the current python/zerv) maps to an option that the sub-command of the current build
       accepts (clap definitions, incl. global options) with the right arity; every call that
       sets one (thorough: two) keyword(s) to each applicable value class is generated with the
       expected argv.
Gen  : the Python harness calls the real module with _run_zerv_command replaced by a recorder
       (argv must equal the expected one) and unpatched against the built binary (the return
       value must be the stripped stdout of the equivalent command line; a failing command must
       raise), plus a fixed list of calls that must raise.
"""
import json
import os
import subprocess

from . import core


def run(tier):
    v = core.Verdict("C18")
    flags = os.path.join(core.BUILD, "c18-flags.json")
    params = os.path.join(core.BUILD, "c18-params.json")
    core.zv(["flags", "cli", flags])
    py = os.path.join(core.VERIF, "pyharness", "c18.py")
    p = subprocess.run(["python3", py, "params", flags, params], stdout=subprocess.PIPE, stderr=subprocess.PIPE, text=True, stdin=subprocess.DEVNULL)
    if p.returncode != 0:
        raise core.ToolError("python introspection failed: " + p.stderr[-2000:])
    counts = json.loads(p.stdout)
    maxkw = 1 if tier == "quick" else 2
    cfg = "SPECIFICATION Spec\nCONSTANTS\n  MaxKw = %d\nINVARIANTS EmitLine\nCHECK_DEADLOCK FALSE\n" % maxkw
    r = core.tlc("MC_PyApi", cfg, "c18-mc", workers=8, timeout=7200, env_extra={"ZV_PARAMS": params})
    table_bad = any("TABLE-VIOLATION" in l for l in open(r["out_path"]))
    if table_bad:
        # find the offending keywords for the report
        P = json.load(open(params))
        for fn, d in P.items():
            opts = {(core.cp_text(o["opt"]), o["takes"]) for o in d["opts"]}
            alias = {"source": "-s", "input_format": "-f", "repo_path": "-C", "verbose": "-v", "format": "--format"}
            for kw in d["kws"]:
                opt = alias.get(kw["name"], "--" + kw["name"].replace("_", "-"))
                if (opt, not kw["bool"]) not in opts:
                    v.add([dict(key="C18:keyword-without-option", function=fn, keyword=kw["name"], expected_option=opt,
                                takes_value=not kw["bool"], accepted=sorted(o for o, _ in opts))])
    cases = os.path.join(core.BUILD, "c18-cases.jsonl")
    with open(cases, "w") as f:
        for case in core.tlc_lines(r["out_path"], "REPLAY"):
            f.write(json.dumps(case) + "\n")
    report = os.path.join(core.BUILD, "c18-report.json")
    p = subprocess.run(["python3", py, "replay", cases, core.ZERV, report], stdout=subprocess.PIPE, stderr=subprocess.PIPE, text=True,
                       stdin=subprocess.DEVNULL, timeout=7200)
    if p.returncode != 0:
        raise core.ToolError("python harness failed: " + p.stderr[-2000:])
    rep = json.load(open(report))
    core.log("C18: keywords %s; table invariant %s; %d calls replayed through python/zerv, %d mismatches"
             % (counts, "VIOLATED" if table_bad else "holds", rep["evaluations"], rep["mismatch_count"]))
    v.add(rep["mismatches"])
    os.remove(r["out_path"])
    cov = dict(states=r["distinct"], transitions=r["states"], traces_validated_against_impl=rep["evaluations"], samples=rep["samples"][:5],
               evaluations=rep["evaluations"], distinct_nontrivial=rep["nontrivial"],
               rule="every keyword of version/flow/check/render (%s) with each applicable value class (None, False, True, 0, a "
                    "valid value)%s; non-trivial = the call adds at least one option. Each call is checked for its argv and, "
                    "with context arguments making it runnable, for its return value against the built binary; 8 calls that "
                    "must raise." % (counts, ", and every pair of keywords" if maxkw == 2 else ""),
               exhaustive=True)
    return v.finish(tier, "model_checking", cov,
                    ["TLC and the CommunityModules JSON reader", "python3 (stdlib) importing /repo/python/zerv; the binary is the harness-profile build of /repo",
                     "the option table is read from the clap definitions of the current build, the keyword lists from the current Python signatures"])


def replay(path):
    return core.replay_generic(path)
