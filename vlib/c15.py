"""C15 - template variables agree with the rendered version; functions keep their contracts.

MC   : MC_Template - the function contracts are consistent with the sanitiser's design theorem;
       every value text up to the bound is emitted with the expected results of the determined
       functions (sanitize presets / custom parameters, prefix, prefix_if).
Gen  : each value is evaluated through `version --source stdin --output-template` and compared.
Trace: the context of random objects ({{ semver }}, {{ pep440 }}, the *_obj recompositions, the
       docker form, the scalar variables) is judged against Render.tla; random calls of sanitize
       (presets and every subset of custom parameters), hash, hash_int, prefix, prefix_if and
       format_timestamp (instants from 1970 to 9999-12-31 incl. the first 11-digit timestamps, strftime subset, recorded under a non-UTC TZ) with
       hostile values are judged against Template.tla (Trace_Template).
"""
import os

from . import core

ALPHABET = "{97, 66, 48, 46, 45, 32, 233}"


def cfg(maxlen):
    return "SPECIFICATION Spec\nCONSTANTS\n  Alphabet = %s\n  MaxLen = %d\n  Emit = TRUE\nINVARIANTS EmitLine Consistent\nCHECK_DEADLOCK FALSE\n" % (ALPHABET, maxlen)


def run(tier):
    v = core.Verdict("C15")
    maxlen = 4 if tier == "quick" else 5
    r = core.tlc("MC_Template", cfg(maxlen), "c15-mc", workers=12, timeout=7200)
    rep = core.zv(["replay", "template", r["out_path"]], timeout=14400)
    core.log("C15: %d value texts (<= %d symbols), %d function evaluations, %d mismatches"
             % (r["distinct"], maxlen, rep["evaluations"], rep["mismatch_count"]))
    if rep["evaluations"] == 0:
        raise core.ToolError("nothing generated")
    v.add(rep["mismatches"])
    os.remove(r["out_path"])
    # design level: the week arithmetic behind format_timestamp (%U %W, ISO week date) against its defining
    # properties on every day from 1970-01-01 to 2199-12-31 (a violated invariant means the SPECIFICATION is wrong)
    rs = core.tlc("MC_Strftime", "SPECIFICATION Spec\nCONSTANTS\n  LastDay = 84005\nINVARIANTS Ranges Jan4Dec28 ThursdayRule Steps Known\nCHECK_DEADLOCK FALSE\n",
                  "c15-strftime", workers=2, timeout=1800, xss=True)
    if rs["distinct"] != 84006:
        raise core.ToolError("MC_Strftime walked %d days instead of 84006" % rs["distinct"])
    core.log("  MC_Strftime: week numbers and ISO week dates agree with their defining properties on %d days" % rs["distinct"])
    os.remove(rs["out_path"])
    n = 12000 if tier == "quick" else 150000
    tev = tbad = 0
    old_tz = os.environ.get("TZ")
    for k in range(0, n, 6000):
        path = os.path.join(core.BUILD, "c15-trace-%d.ndjson" % k)
        os.environ["TZ"] = ["Pacific/Kiritimati", "Pacific/Pago_Pago", "Asia/Kolkata"][(k // 6000) % 3]
        try:
            core.zv(["record", "template", core.seed() * 1000 + k // 6000, 6000, path], timeout=14400)
        finally:
            if old_tz is None:
                os.environ.pop("TZ", None)
            else:
                os.environ["TZ"] = old_tz
        events, bad, _ = core.trace_validate("Trace_Template", path, "c15-trace")
        tev += len(events)
        tbad += len(bad)
        for i, ev in bad:
            why = ev.get("_reason", "?")
            if why == "recorder-civil-fields":
                raise core.ToolError("the recorder's civil fields do not satisfy Calendar!ValidCivil: %r" % ev["inst"])
            m = dict(key=("X:" + why[2:]) if why.startswith("X-") else ("C15:" + why), line=i, trace=path, kind=ev["k"])
            if ev["k"] == "ctx":
                m.update(schema=ev["sch"], observed={f: (x["kind"], core.cp_text(x["s"])) for f, x in ev.items() if isinstance(x, dict) and "kind" in x},
                         expected_scalars=core.cp_text(ev["want_scalars"]))
            else:
                m.update(value=core.cp_text(ev.get("value", [])), call={f: ev[f] for f in ("call", "len", "allow", "tz", "inst") if f in ev},
                         format=core.cp_text(ev.get("format", [])), observed=(ev["out"]["kind"], core.cp_text(ev["out"]["s"])))
            v.add([m])
    core.log("  validated %d recorded template evaluations, %d rejected" % (tev, tbad))
    cov = dict(states=r["distinct"], transitions=r["states"], traces_validated_against_impl=rep["evaluations"] + tev,
               samples=rep["samples"][:4], evaluations=rep["evaluations"] + tev, distinct_nontrivial=rep["nontrivial"],
               rule="Gen: every value of length <= %d over {a B 0 . - space e-acute} x (5 sanitize presets, uint, 3 custom "
                    "parameter sets, prefix lengths 0-3, prefix_if); non-trivial = the dotted preset changes the value. "
                    "Trace: %d events: contexts of random objects and random function calls (lengths 0..100, non-ASCII "
                    "and empty values, every subset of sanitize parameters, 11 timestamp formats at anchor instants)." % (maxlen, tev),
               exhaustive=True, recorded_events=tev)
    return v.finish(tier, "model_checking", cov,
                    ["TLC and the CommunityModules JSON reader",
                     "Tera itself (control flow, built-in filters) is not modelled; templates use the documented variables and the six custom functions",
                     "hash / hash_int values are opaque: shape contract and repeatability only",
                     "format_timestamp is checked for the strftime subset %Y %y %m %d %H %M %S %j %-m %-d %% and the two compact names"])


def replay(path):
    return core.replay_generic(path)
