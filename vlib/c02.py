"""C02 - git state extraction is faithful to the repository history.

MC   : MC_GitRepo over GitRepo.tla - all repositories reachable by a bounded number of git
       operations (commit, branch, checkout, detach, ff and no-ff merge, lightweight/annotated
       tag, tag deletion); sanity of the declarative facts (nearest validly tagged ancestors are
       pairwise unrelated, distance 0 iff the tag is on HEAD, ...).
Gen  : one witness operation sequence per distinct repository is replayed with the real git in
       a temp directory (isolated config, explicit commit dates under an increasing /
       decreasing / constant policy) and `zerv version -C` is observed under auto / semver /
       pep440 and under each work-tree kind; tag, tagged commit, distance, dirty, branch, HEAD,
       commit and tag times must be among the answers the specification derives from the DAG.
Trace: random sessions of 8-25 operations (up to 12 commits, criss-cross merges, retagging,
       tag deletion, 12 tag names) with an observation after every operation; Trace_GitRepo
       replays the operations through the spec's actions and judges every observation.
"""
import os

from . import core


def cfg(commits, ops, ntags, branches):
    return """SPECIFICATION Spec
CONSTANTS
  MaxCommits = %d
  MaxOps = %d
  BranchNames = {%s}
  TagNames <- MCTagNames
  NTags = %d
  Emit = TRUE
VIEW View
INVARIANTS FactsSane EmitLine
CHECK_DEADLOCK FALSE
""" % (commits, ops, ", ".join('"%s"' % b for b in branches), ntags)


TRACE_CFG = """SPECIFICATION Spec
CONSTANTS
  MaxCommits = 100000
  BranchNames = {"dev"}
  TagNames = {}
POSTCONDITION AllConsumed
CHECK_DEADLOCK FALSE
"""


def run(tier):
    v = core.Verdict("C02")
    bounds, stride, sessions = ((3, 4, 4, ["dev"]), 1, 400) if tier == "quick" else ((4, 6, 5, ["dev"]), 6, 6000)
    r = core.tlc("MC_GitRepo", cfg(*bounds), "c02-mc", workers=12, timeout=14400)
    core.log("C02: TLC MC_GitRepo %s: %d states, %d distinct repositories, %.1fs" % (bounds[:3], r["states"], r["distinct"], r["wall"]))
    rep = core.zv(["replay", "gitrepo", r["out_path"], stride], timeout=28800)
    core.log("  replayed %d repositories into real git, %d observations (%d with merges / several tags / unreachable tags / detached), %d mismatches"
             % (rep["extra"]["repositories"], rep["evaluations"], rep["nontrivial"], rep["mismatch_count"]))
    if rep["evaluations"] == 0:
        raise core.ToolError("nothing generated")
    v.add(rep["mismatches"])
    os.remove(r["out_path"])
    tev = tbad = 0
    states, trans = r["distinct"], r["states"]
    per = 200
    for k in range(0, sessions, per):
        path = os.path.join(core.BUILD, "c02-trace-%d.ndjson" % k)
        core.zv(["record", "gitrepo", core.seed() * 1000 + k // per, min(per, sessions - k), path], timeout=14400)
        # trace_validate with a dedicated cfg (the module has constants)
        saved = core.TRACE_CFG
        core.TRACE_CFG = TRACE_CFG
        try:
            events, bad, tr = core.trace_validate("Trace_GitRepo", path, "c02-trace", marker=True)
        finally:
            core.TRACE_CFG = saved
        tev += len(events)
        states += tr["distinct"]
        trans += tr["states"]
        for i, ev in bad:
            if ev.get("_reason", "").startswith("flow-") or ev.get("_reason") == "git-output-not-wellformed":
                continue        # flow versions along the history are C03's claim, output well-formedness C01's
            tbad += 1
            # the operations of this session up to the rejected observation
            j = i - 1
            ops = []
            while j >= 0 and events[j]["k"] != "reset":
                if events[j]["k"] == "op":
                    a = events[j]["arg"]
                    ops.append("%s %s" % (events[j]["op"], core.cp_text(a) if isinstance(a, list) else a))
                j -= 1
            v.add([dict(key="C02:" + ev.get("_reason", "?"), line=i, trace=path, ops="; ".join(reversed(ops)),
                        format=ev["fmt"], worktree=ev["wt"], observed=ev["obs"])])
    core.log("  validated %d session events (%d sessions), %d observations rejected" % (tev, sessions, tbad))
    cov = dict(states=states, transitions=trans, traces_validated_against_impl=rep["evaluations"] + tev,
               samples=rep["samples"][:4], evaluations=rep["evaluations"] + tev, distinct_nontrivial=rep["nontrivial"],
               rule="Gen: every distinct repository reachable with <= %d commits and <= %d operations over main+%s and the first "
                    "%d tag names of {v1.0.0, 1.0.0a1, latest, v2.0.0-rc.1, 1.0.0, v1.1.0} (every %d-th uninteresting state; all "
                    "states with a merge commit, two tags on a commit, a tag unreachable from HEAD or a detached HEAD), each "
                    "observed 7 times (3 formats clean + 4 work-tree kinds). distinct_nontrivial = those interesting states. "
                    "Trace: %d random sessions." % (bounds[0], bounds[1], bounds[3], bounds[2], stride, sessions),
               exhaustive=(stride == 1), repositories=rep["extra"]["repositories"], recorded_events=tev)
    return v.finish(tier, "model_checking", cov,
                    ["TLC and the CommunityModules JSON reader", "real git 2.39 as installed, isolated from user/system configuration",
                     "GitRepo.tla: nearest = validly tagged ancestors-or-self of HEAD without a validly tagged descendant that is also an ancestor-or-self of HEAD; auto format decided per commit (more parsable tags wins, SemVer on ties)",
                     "with a dirty work tree zerv re-stamps the HEAD time with the wall clock (documented); the exact commit time is required on clean observations only"])


def replay(path):
    return core.replay_generic(path)
