"""C02 - git state extraction is faithful to the repository history.

MC   : MC_GitRepo over GitRepo.tla - all repositories reachable by a bounded number of git
       operations (commit, branch, checkout, detach, ff and no-ff merge, lightweight/annotated
       tag, tag deletion; in a second exploration also history rewriting: reset --hard,
       commit --amend, tag -f, which leave commits and tags that no ref reaches); sanity of the declarative facts (nearest validly tagged ancestors are
       pairwise unrelated, distance 0 iff the tag is on HEAD, ...).
Gen  : one witness operation sequence per distinct repository is replayed with the real git in
       a temp directory (isolated config, explicit commit dates under an increasing /
       decreasing / constant policy) and `zerv version -C` is observed under auto / semver /
       pep440 and under each work-tree kind; tag, tagged commit, distance, dirty, branch, HEAD,
       commit and tag times must be among the answers the specification derives from the DAG.
Trace: random sessions of 8-25 operations (up to 12 commits, criss-cross merges, retagging,
       tag deletion, 12 tag names) with an observation after every operation; Trace_GitRepo
       replays the operations through the spec's actions and judges every observation.
"""
import os

from . import core


def cfg(commits, ops, ntags, branches, rewrite=False):
    return """SPECIFICATION Spec
CONSTANTS
  MaxCommits = %d
  MaxOps = %d
  BranchNames = {%s}
  TagNames <- MCTagNames
  NTags = %d
  Emit = TRUE
  Rewrite = %s
VIEW View
INVARIANTS FactsSane EmitLine
CHECK_DEADLOCK FALSE
""" % (commits, ops, ", ".join('"%s"' % b for b in branches), ntags, "TRUE" if rewrite else "FALSE")


TRACE_CFG = """SPECIFICATION Spec
CONSTANTS
  MaxCommits = 100000
  BranchNames = {"dev"}
  TagNames = {}
POSTCONDITION AllConsumed
CHECK_DEADLOCK FALSE
"""


def run(tier):
    v = core.Verdict("C02")
    bounds, stride, sessions = ((3, 4, 4, ["dev"]), 1, 400) if tier == "quick" else ((4, 6, 5, ["dev"]), 6, 6000)
    rbounds, rstride = ((3, 4, 3, ["dev"]), 2) if tier == "quick" else ((4, 5, 3, ["dev"]), 4)
    rep = None
    states = trans = 0
    for bnd, strd, rewrite in ((bounds, stride, False), (rbounds, rstride, True)):
        # one worker = strict breadth-first order: the witness of every repository is a shortest one, so the
        # MaxOps bound on the (hidden) history cuts nothing that is reachable within MaxOps operations;
        # with several workers a state can first be reached by a longer path and lose successors (< 1 %)
        r = core.tlc("MC_GitRepo", cfg(*bnd, rewrite=rewrite), "c02-mc", workers=1 if tier == "quick" else 12, timeout=14400)
        core.log("C02: TLC MC_GitRepo %s%s: %d states, %d distinct repositories, %.1fs"
                 % (bnd[:3], " with reset --hard / commit --amend / tag -f" if rewrite else "", r["states"], r["distinct"], r["wall"]))
        rp = core.zv(["replay", "gitrepo", r["out_path"], strd, 1 if tier == "quick" else 3], timeout=28800)
        core.log("  replayed %d repositories into real git, %d observations (%d with merges / several tags / unreachable tags / detached / rewritten history), %d mismatches"
                 % (rp["extra"]["repositories"], rp["evaluations"], rp["nontrivial"], rp["mismatch_count"]))
        if rp["evaluations"] == 0:
            raise core.ToolError("nothing generated")
        v.add(rp["mismatches"])
        os.remove(r["out_path"])
        states += r["distinct"]
        trans += r["states"]
        if rep is None:
            rep = rp
        else:
            for f in ("evaluations", "nontrivial"):
                rep[f] += rp[f]
            rep["extra"]["repositories"] += rp["extra"]["repositories"]
            rep["samples"] = rep["samples"][:2] + rp["samples"][:2]
    tev = tbad = 0
    per = 200
    for k in range(0, sessions, per):
        path = os.path.join(core.BUILD, "c02-trace-%d.ndjson" % k)
        core.zv(["record", "gitrepo", core.seed() * 1000 + k // per, min(per, sessions - k), path], timeout=14400)
        # trace_validate with a dedicated cfg (the module has constants)
        saved = core.TRACE_CFG
        core.TRACE_CFG = TRACE_CFG
        try:
            events, bad, tr = core.trace_validate("Trace_GitRepo", path, "c02-trace", marker=True)
        finally:
            core.TRACE_CFG = saved
        tev += len(events)
        states += tr["distinct"]
        trans += tr["states"]
        for i, ev in bad:
            if ev.get("_reason", "").startswith("flow-") or ev.get("_reason") == "git-output-not-wellformed":
                continue        # flow versions along the history are C03's claim, output well-formedness C01's
            tbad += 1
            # the operations of this session up to the rejected observation
            j = i - 1
            ops = []
            while j >= 0 and events[j]["k"] != "reset":
                if events[j]["k"] == "op":
                    a = events[j]["arg"]
                    ops.append("%s %s" % (events[j]["op"], core.cp_text(a) if isinstance(a, list) else a))
                j -= 1
            v.add([dict(key="C02:" + ev.get("_reason", "?"), line=i, trace=path, ops="; ".join(reversed(ops)),
                        format=ev["fmt"], worktree=ev["wt"], observed=ev["obs"])])
    core.log("  validated %d session events (%d sessions), %d observations rejected" % (tev, sessions, tbad))
    cov = dict(states=states, transitions=trans, traces_validated_against_impl=rep["evaluations"] + tev,
               samples=rep["samples"][:4], evaluations=rep["evaluations"] + tev, distinct_nontrivial=rep["nontrivial"],
               rule="Gen: every distinct repository reachable with <= %d commits and <= %d operations over main+%s and the first "
                    "%d tag names of {v1.0.0, 1.0.0a1, main (also a branch name), v2.0.0-rc.1, 1.0.0, v1.1.0} (every %d-th uninteresting state; all "
                    "states (thorough: every third) with a merge commit, two tags on a commit, a tag unreachable from HEAD, a detached HEAD or rewritten history), each "
                    "observed 10 times (3 formats clean, 4 work-tree kinds, from a sub-directory, with -C on a sub-directory, from a linked work tree). distinct_nontrivial = those interesting states. "
                    "A second exploration adds reset --hard, commit --amend and tag -f (<= %d commits, <= %d operations, %d tag names, every %d-th "
                    "uninteresting state). Trace: %d random sessions (the same operations)." % (bounds[0], bounds[1], bounds[3], bounds[2], stride, rbounds[0], rbounds[1], rbounds[2], rstride, sessions),
               exhaustive=(stride == 1), repositories=rep["extra"]["repositories"], recorded_events=tev)
    return v.finish(tier, "model_checking", cov,
                    ["TLC and the CommunityModules JSON reader", "real git 2.39 as installed, isolated from user/system configuration",
                     "GitRepo.tla: nearest = validly tagged ancestors-or-self of HEAD without a validly tagged descendant that is also an ancestor-or-self of HEAD; auto format decided per commit (more parsable tags wins, SemVer on ties)",
                     "with a dirty work tree zerv re-stamps the HEAD time with the wall clock (documented); the exact commit time is required on clean observations only"])


def replay(path):
    return core.replay_generic(path)
