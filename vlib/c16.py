"""C16 - the sanitiser contract.

MC  : MC_Sanitizer - pass machine = declarative contract + all consequences, every
      string up to the bound over the 9-character alphabet, every configuration.
Gen : the same run prints one REPLAY line per string with the acceptable results per
      configuration; the harness calls Sanitizer::sanitize (twice, for idempotence) and
      Sanitizer::uint() and compares.
Trace: seeded random Unicode inputs / settings recorded from the real code and validated
      event by event by Trace_Sanitizer.
"""
import json
import os

from . import core

ALPHABET = "{97, 66, 48, 49, 46, 45, 95, 32, 233}"


def mc_cfg(maxlen):
    return """SPECIFICATION Spec
CONSTANTS
  Alphabet = %s
  MaxLen = %d
  Emit = TRUE
INVARIANTS MachineMeetsContract UIntOk EmitLine
CHECK_DEADLOCK FALSE
""" % (ALPHABET, maxlen)




def trace_key(ev):
    if ev.get("panic"):
        return "C16:panic"
    if ev["k"] == "uint":
        return "C16:uint"
    if any(c > 127 for c in ev["in"]):
        return "C16:non-ascii-input"
    if ev["cfg"]["max"] >= 0:
        return "C16:max-length"
    return "C16:ascii-unbounded"


def validate_trace(path, name, v, timeout=1800):
    events, bad, r = core.trace_validate("Trace_Sanitizer", path, name, timeout=timeout)
    for i, ev in bad:
        m = dict(key=trace_key(ev), line=i, trace=path,
                 input=core.cp_text(ev["in"]), observed=("panic" if ev["panic"] else core.cp_text(ev["out"])))
        if "cfg" in ev:
            m["cfg"] = ev["cfg"]
        v.add([m])
    return len(events), len(bad), r


def run(tier):
    v = core.Verdict("C16")
    maxlen = 4 if tier == "quick" else 5
    core.log("C16: TLC model check + generation, strings <= %d over 9 symbols x 60 configurations" % maxlen)
    r = core.tlc("MC_Sanitizer", mc_cfg(maxlen), "c16-mc", workers=12, timeout=7200)
    core.log("  TLC: %d states, %d distinct, %.1fs" % (r["states"], r["distinct"], r["wall"]))
    rep = core.zv(["replay", "sanitizer", r["out_path"]])
    core.log("  replayed %d comparisons, %d mismatches" % (rep["evaluations"], rep["mismatch_count"]))
    v.add(rep["mismatches"])
    n = 20000 if tier == "quick" else 300000
    chunk = 20000
    total_ev = total_bad = 0
    for k in range(0, n, chunk):
        path = os.path.join(core.BUILD, "c16-trace-%d.ndjson" % k)
        core.zv(["record", "sanitizer", core.seed() * 1000 + k // chunk, chunk, path])
        ne, nb, _ = validate_trace(path, "c16-trace", v)
        total_ev += ne
        total_bad += nb
    core.log("  validated %d recorded events, %d rejected" % (total_ev, total_bad))
    cov = dict(states=r["distinct"], transitions=r["states"],
               traces_validated_against_impl=rep["evaluations"] + total_ev,
               samples=rep["samples"][:4],
               evaluations=rep["evaluations"] + total_ev,
               distinct_nontrivial=rep["nontrivial"],
               rule="Gen: every string of length <= %d over {a B 0 1 . - _ space e-acute} x 60 settings "
                    "(3 separators x lowercase x keep_zeros x max_length in none,0,1,3,5) + the integer "
                    "sanitiser; a string is non-trivial when some setting changes it. Trace: %d seeded "
                    "random Unicode inputs up to 40 scalars with random settings, each judged by TLC." % (maxlen, total_ev),
               exhaustive=True,
               generated_strings=r["distinct"], recorded_events=total_ev,
               tlc_cmd="tlc -config MC_Sanitizer(MaxLen=%d) MC_Sanitizer.tla; tlc Trace_Sanitizer.tla" % maxlen)
    return v.finish(tier, "model_checking", cov,
                    ["TLC and the CommunityModules JSON reader", "the Sanitizer specification (contract and machine agree, checked by TLC)",
                     "separators are '.', '-' or '_' (the statement's precondition); separator none is checked for idempotence, length and panics only"])


def replay(path):
    return core.replay_generic(path)
