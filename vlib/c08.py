"""C08 - the SemVer parser accepts exactly SemVer 2.0.0 and loses nothing.

MC  : MC_SemVer - BNF predicate <=> character automaton, Print(Parse(s)) = s, on every
      string up to the bound (AllStrings) and on every viable prefix plus its one-symbol
      dead extensions up to a larger bound.
Gen : the same runs print one REPLAY line per string (verdict, printed form); the harness
      calls SemVer::from_str / to_string and run_check_command(--format semver).
Trace: token-composed and mutated long strings (numbers at 2^32, 2^64, 25 digits; Unicode
      digits and letters) recorded from the code and judged by Trace_SemVer.
"""
import os

from . import core

ALPHABET = "{48, 49, 57, 97, 90, 45, 46, 43, 118, 1634, 233}"


def cfg(maxlen, allstrings):
    return """SPECIFICATION Spec
CONSTANTS
  Alphabet = %s
  MaxLen = %d
  AllStrings = %s
  Emit = TRUE
INVARIANTS TwoFormulationsAgree RoundTrip AsciiOnly EmitLine
CHECK_DEADLOCK FALSE
""" % (ALPHABET, maxlen, "TRUE" if allstrings else "FALSE")


def trace_key(ev):
    s = ev["s"]
    if ev.get("panic"):
        return "C08:panic"
    if any(c > 127 for c in s):
        return "C08:non-ascii-input"
    run = best = 0
    for c in s:
        run = run + 1 if 48 <= c <= 57 else 0
        best = max(best, run)
    if best >= 20:
        return "C08:number-beyond-u64"
    return "C08:ascii"


def run(tier):
    v = core.Verdict("C08")
    all_len, pre_len = (5, 8) if tier == "quick" else (6, 10)
    states = trans = evals = nontrivial = 0
    samples = []
    for name, ml, alls in (("c08-all", all_len, True), ("c08-prefix", pre_len, False)):
        r = core.tlc("MC_SemVer", cfg(ml, alls), name, workers=12, timeout=7200)
        core.log("C08: TLC %s MaxLen=%d: %d states, %d distinct, %.1fs" % (name, ml, r["states"], r["distinct"], r["wall"]))
        rep = core.zv(["replay", "semver", r["out_path"]])
        core.log("  replayed %d strings (%d accepted by the grammar), %d mismatches"
                 % (rep["evaluations"], rep["nontrivial"], rep["mismatch_count"]))
        v.add(rep["mismatches"])
        states += r["distinct"]
        trans += r["states"]
        evals += rep["evaluations"]
        nontrivial += rep["nontrivial"]
        samples += rep["samples"][:3]
        os.remove(r["out_path"])
    n = 20000 if tier == "quick" else 200000
    chunk = 20000
    tev = tbad = 0
    for k in range(0, n, chunk):
        path = os.path.join(core.BUILD, "c08-trace-%d.ndjson" % k)
        core.zv(["record", "semver", core.seed() * 1000 + k // chunk, chunk, path])
        events, bad, _ = core.trace_validate("Trace_SemVer", path, "c08-trace")
        tev += len(events)
        tbad += len(bad)
        for i, ev in bad:
            v.add([dict(key=trace_key(ev), line=i, trace=path, s=core.cp_text(ev["s"]),
                        observed=dict(panic=ev["panic"], accepted=ev["ok"], printed=core.cp_text(ev["printed"]), check=ev["check"]))])
    core.log("  validated %d recorded events, %d rejected" % (tev, tbad))
    cov = dict(states=states, transitions=trans, traces_validated_against_impl=evals + tev,
               samples=samples, evaluations=evals + tev, distinct_nontrivial=nontrivial,
               rule="Gen: every string of length <= %d over {0 1 9 a Z - . + v U+0662 e-acute} and every viable "
                    "prefix of the SemVer automaton up to length %d with all its one-symbol dead extensions; "
                    "non-trivial = accepted by the grammar. Trace: %d token-composed / mutated strings with "
                    "numbers up to 25 digits and non-ASCII digits and letters." % (all_len, pre_len, tev),
               exhaustive=True, recorded_events=tev)
    return v.finish(tier, "model_checking", cov,
                    ["TLC and the CommunityModules JSON reader",
                     "SemVerGrammar.tla is a faithful transcription of the semver.org BNF (two formulations, checked equal by TLC)",
                     "core numbers beyond u64 may be rejected (C07) or printed back exactly (C08); both are accepted"])


def replay(path):
    return core.replay_generic(path)
