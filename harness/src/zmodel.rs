//! C05 (and the state part of C06/C12): ZervModel behaviours replayed through clap and
//! run_version_pipeline with `--output-format zerv`; every variable and every schema
//! component is compared with the specification's final state.
use std::str::FromStr;

use rand::rngs::StdRng;
use rand::seq::SliceRandom;
use rand::{Rng, SeedableRng};
use serde_json::{Value, json};
use zerv::version::zerv::{Component, Var, Zerv};

use crate::cli::{Outcome, run_cli};
use crate::wire::*;

const NONE: i64 = -1;

fn comp_json(c: &Component) -> Value {
    match c {
        Component::Str(s) => json!({"t": "str", "v": "", "s": to_cps(s), "n": 0}),
        Component::UInt(n) => json!({"t": "uint", "v": "", "s": [], "n": n}),
        Component::Var(Var::Timestamp(p)) => json!({"t": "ts", "v": p, "s": [], "n": 0}),
        Component::Var(Var::Custom(k)) => json!({"t": "custom", "v": "", "s": to_cps(k), "n": 0}),
        Component::Var(v) => json!({"t": "var", "v": format!("{v:?}"), "s": [], "n": 0}),
    }
}

pub fn comp_ron(c: &Value) -> String {
    match c["t"].as_str().unwrap() {
        "str" => format!("str({})", ron_str(&cps(&c["s"]))),
        "uint" => format!("uint({})", c["n"]),
        "ts" => format!("var(ts({}))", ron_str(c["v"].as_str().unwrap())),
        "custom" => format!("var(custom({}))", ron_str(&cps(&c["s"]))),
        _ => format!("var({})", c["v"].as_str().unwrap()),
    }
}

pub fn ron_str(s: &str) -> String {
    ron::ser::to_string(&s.to_string()).unwrap()
}

pub fn schema_ron(sch: &Value) -> String {
    schema_ron_with_order(sch, &Value::Null)
}

const DEFAULT_ORDER: &[&str] = &["Epoch", "Major", "Minor", "Patch", "Core", "PreReleaseLabel", "PreReleaseNum", "Post", "Dev", "ExtraCore", "Build"];

/// the schema with its precedence order (written out only when it is not the default one)
pub fn schema_ron_with_order(sch: &Value, order: &Value) -> String {
    let sec = |name: &str| arr(&sch[name]).iter().map(comp_ron).collect::<Vec<_>>().join(",");
    let ord: Vec<String> = if order.is_null() { vec![] } else { arr(order).iter().map(|x| x.as_str().unwrap().to_string()).collect() };
    let default = ord.is_empty() && order.is_null() || ord.iter().map(|s| s.as_str()).eq(DEFAULT_ORDER.iter().copied());
    if default {
        format!("(core:[{}],extra_core:[{}],build:[{}])", sec("core"), sec("extra"), sec("build"))
    } else {
        format!("(core:[{}],extra_core:[{}],build:[{}],precedence_order:[{}])", sec("core"), sec("extra"), sec("build"), ord.join(","))
    }
}

fn opt(n: i64) -> Option<i64> {
    if n == NONE { None } else { Some(n) }
}

/// the text of a numeric flag value: a literal, or a template over the pre-bump snapshot
fn num_text(n: i64) -> String {
    match n {
        -10 => "{{ major }}".into(),
        -11 => "{{minor}}".into(),
        -12 => "{{ patch }}".into(),
        -13 => "{{ distance }}".into(),
        -14 => "{{ post }}".into(),
        _ => n.to_string(),
    }
}

/// the tag text for a start version, in SemVer canonical shape or (when possible) PEP 440
pub fn tag_text(v: &Value, pep: bool) -> String {
    let g = |f: &str| v[f].as_i64().unwrap();
    let label = v["pre"]["l"].as_str().unwrap();
    let n = v["pre"]["n"].as_i64().unwrap();
    if pep && (label == "none" || n != NONE) {
        let mut s = String::new();
        if g("epoch") != NONE {
            s += &format!("{}!", g("epoch"));
        }
        s += &format!("{}.{}.{}", g("major"), g("minor"), g("patch"));
        if label != "none" {
            s += match label { "alpha" => "a", "beta" => "b", _ => "rc" };
            s += &n.to_string();
        }
        if g("post") != NONE {
            s += &format!(".post{}", g("post"));
        }
        if g("dev") != NONE {
            s += &format!(".dev{}", g("dev"));
        }
        s
    } else {
        let mut ids: Vec<String> = vec![];
        if g("epoch") != NONE {
            ids.push(format!("epoch.{}", g("epoch")));
        }
        if label != "none" {
            ids.push(if n == NONE { label.to_string() } else { format!("{label}.{n}") });
        }
        if g("post") != NONE {
            ids.push(format!("post.{}", g("post")));
        }
        if g("dev") != NONE {
            ids.push(format!("dev.{}", g("dev")));
        }
        let mut s = format!("{}.{}.{}", g("major"), g("minor"), g("patch"));
        if !ids.is_empty() {
            s += "-";
            s += &ids.join(".");
        }
        s
    }
}

const BRANCH_TOKENS: &[&str] = &["", "main", "feature/x-1"];
const HASH_TOKENS: &[&str] = &["", "a1b2c3d4e5f60718293a4b5c6d7e8f9012345678"];

/// argv groups (each group stays together; groups are shuffled)
pub fn argv_groups(a: &Value, rng: &mut StdRng, pep: bool) -> Vec<Vec<String>> {
    let mut g: Vec<Vec<String>> = vec![];
    let s = |x: &str| x.to_string();
    if a["hasTag"].as_bool().unwrap() {
        g.push(vec![s("--tag-version"), tag_text(&a["tag"], pep)]);
    }
    let names = [("epoch", "epoch"), ("major", "major"), ("minor", "minor"), ("patch", "patch"),
                 ("prenum", "pre-release-num"), ("post", "post"), ("dev", "dev")];
    for (f, flag) in names {
        if let Some(n) = opt(a["ov"][f].as_i64().unwrap()) {
            if rng.gen_bool(0.5) {
                g.push(vec![format!("--{flag}"), num_text(n)]);
            } else {
                g.push(vec![format!("--{flag}={}", num_text(n))]);
            }
        }
        if let Some(n) = opt(a["bp"][f].as_i64().unwrap()) {
            if n == 1 && rng.gen_bool(0.6) {
                g.push(vec![format!("--bump-{flag}")]);
            } else if rng.gen_bool(0.5) {
                g.push(vec![format!("--bump-{flag}"), num_text(n)]);
            } else {
                g.push(vec![format!("--bump-{flag}={}", num_text(n))]);
            }
        }
    }
    let l = a["ov"]["label"].as_str().unwrap();
    if !l.is_empty() {
        g.push(vec![s("--pre-release-label"), s(l)]);
    }
    let l = a["bp"]["label"].as_str().unwrap();
    if !l.is_empty() {
        g.push(vec![s("--bump-pre-release-label"), s(l)]);
    }
    for op in arr(&a["ops"]) {
        let sec = match op["sec"].as_str().unwrap() { "core" => "core", "extra" => "extra-core", _ => "build" };
        let bump = op["kind"] == "bump";
        let flag = if bump { format!("--bump-{sec}") } else { format!("--{sec}") };
        let idx = op["idx"].as_i64().unwrap();
        // negative indices: `-N` (needs the = syntax) or, for overrides, also `~N`
        let idx_s = if idx < 0 && rng.gen_bool(0.5) { format!("~{}", -idx) } else { idx.to_string() };
        let spec = if op["hasval"].as_bool().unwrap() { format!("{idx_s}={}", cps(&op["val"]["s"])) } else { idx_s };
        if spec.starts_with('-') || rng.gen_bool(0.3) {
            g.push(vec![format!("{flag}={spec}")]);
        } else {
            g.push(vec![flag, spec]);
        }
    }
    let vcs = &a["vcs"];
    if let Some(d) = opt(vcs["distance"].as_i64().unwrap()) {
        g.push(vec![s("--distance"), d.to_string()]);
    }
    for (f, flag) in [("dirty", "--dirty"), ("nodirty", "--no-dirty"), ("clean", "--clean"),
                      ("nbc", "--no-bump-context"), ("bc", "--bump-context")] {
        if vcs[f].as_bool().unwrap() {
            g.push(vec![s(flag)]);
        }
    }
    if let Some(b) = opt(vcs["branch"].as_i64().unwrap()) {
        g.push(vec![s("--bumped-branch"), s(BRANCH_TOKENS[b as usize])]);
    }
    if let Some(h) = opt(vcs["hash"].as_i64().unwrap()) {
        g.push(vec![s("--bumped-commit-hash"), s(HASH_TOKENS[h as usize])]);
    }
    if let Some(t) = opt(vcs["ts"].as_i64().unwrap()) {
        g.push(vec![s("--bumped-timestamp"), t.to_string()]);
    }
    match a["schema"]["kind"].as_str().unwrap() {
        "preset" => g.push(vec![s("--schema"), format!("{}{}", a["schema"]["fam"].as_str().unwrap(), a["schema"]["suffix"].as_str().unwrap())]),
        "ron" => g.push(vec![s("--schema-ron"), schema_ron_with_order(&a["schema"]["sch"], &a["schema"]["order"])]),
        _ => {}
    }
    g
}

fn stdin_ron(src: &Value) -> String {
    let v = &src["v"];
    let o = |n: i64| if n == NONE { "None".to_string() } else { format!("Some({n})") };
    let g = |f: &str| v[f].as_i64().unwrap();
    let pre = if v["pre"]["l"] == "none" {
        "None".to_string()
    } else {
        let lab = match v["pre"]["l"].as_str().unwrap() { "alpha" => "Alpha", "beta" => "Beta", _ => "Rc" };
        format!("Some((label:{lab},number:{}))", o(v["pre"]["n"].as_i64().unwrap()))
    };
    let c = &src["ctx"];
    let dirty = match c["dirty"].as_i64().unwrap() { 1 => "Some(true)", 0 => "Some(false)", _ => "None" };
    let tok = |n: i64, pool: &[&str]| if n == NONE { "None".to_string() } else { format!("Some({})", ron_str(pool[n as usize])) };
    format!(
        "(schema:{},vars:(major:{},minor:{},patch:{},epoch:{},pre_release:{},post:{},dev:{},distance:{},dirty:{},bumped_branch:{},bumped_commit_hash:{},bumped_timestamp:{}))",
        schema_ron_with_order(&src["sch"], &src["order"]), o(g("major")), o(g("minor")), o(g("patch")), o(g("epoch")), pre, o(g("post")), o(g("dev")),
        o(c["distance"].as_i64().unwrap()), dirty, tok(c["branch"].as_i64().unwrap(), BRANCH_TOKENS),
        tok(c["hash"].as_i64().unwrap(), HASH_TOKENS), o(c["ts"].as_i64().unwrap()))
}

/// project a Zerv object onto the specification's state
pub fn project(z: &Zerv, now: (i64, i64)) -> Value {
    let o = |x: Option<u64>| x.map(|n| n as i64).unwrap_or(NONE);
    let pre = match &z.vars.pre_release {
        None => json!({"l": "none", "n": NONE}),
        Some(p) => json!({"l": p.label.label_str(), "n": o(p.number)}),
    };
    let tok = |x: &Option<String>, pool: &[&str]| match x {
        None => NONE,
        Some(s) => pool.iter().position(|p| p == s).map(|i| i as i64).unwrap_or(-9),
    };
    let ts = match z.vars.bumped_timestamp {
        None => NONE,
        // the wall clock is masked by the interval rule
        Some(t) if (t as i64) >= now.0 && (t as i64) <= now.1 => -2,
        Some(t) => t as i64,
    };
    json!({
        "v": {"epoch": o(z.vars.epoch), "major": o(z.vars.major), "minor": o(z.vars.minor), "patch": o(z.vars.patch),
              "pre": pre, "post": o(z.vars.post), "dev": o(z.vars.dev)},
        "ctx": {"distance": o(z.vars.distance),
                "dirty": match z.vars.dirty { Some(true) => 1, Some(false) => 0, None => NONE },
                "branch": tok(&z.vars.bumped_branch, BRANCH_TOKENS), "hash": tok(&z.vars.bumped_commit_hash, HASH_TOKENS), "ts": ts},
        "sch": {"core": z.schema.core().iter().map(comp_json).collect::<Vec<_>>(),
                "extra": z.schema.extra_core().iter().map(comp_json).collect::<Vec<_>>(),
                "build": z.schema.build().iter().map(comp_json).collect::<Vec<_>>()},
    })
}

fn norm(v: &Value) -> Value {
    // TLC prints empty sequences as [] and so do we; normalise {} to []
    match v {
        Value::Object(o) if o.is_empty() => json!([]),
        Value::Object(o) => Value::Object(o.iter().map(|(k, x)| (k.clone(), norm(x))).collect()),
        Value::Array(a) => Value::Array(a.iter().map(norm).collect()),
        x => x.clone(),
    }
}

fn now_s() -> i64 {
    std::time::SystemTime::now().duration_since(std::time::UNIX_EPOCH).unwrap().as_secs() as i64
}

pub fn run_case(a: &Value, rng: &mut StdRng, pep: bool) -> (Vec<String>, Outcome, (i64, i64)) {
    let mut groups = argv_groups(a, rng, pep);
    groups.shuffle(rng);
    let stdin = if a["src"]["hasSchema"].as_bool().unwrap() { Some(stdin_ron(&a["src"])) } else { None };
    // smart source default: with stdin content the source may be left out
    let mut argv = if stdin.is_some() && rng.gen_bool(0.3) { vec!["version".to_string()] }
                   else { vec!["version".to_string(), "--source".to_string(), if stdin.is_some() { "stdin" } else { "none" }.to_string()] };
    for g in groups {
        argv.extend(g);
    }
    argv.push("--output-format".to_string());
    argv.push("zerv".to_string());
    let t0 = now_s();
    let out = run_cli(&argv, stdin.as_deref());
    (argv, out, (t0 - 1, now_s() + 1))
}

fn key_for(a: &Value) -> String {
    if let Ok(p) = std::env::var("ZV_KEY_PREFIX") {
        return p;
    }
    for op in arr(&a["ops"]) {
        if op["kind"] == "bump" && op["idx"].as_i64().unwrap() < 0 {
            return "C05:bump-negative-index".into();
        }
    }
    if !arr(&a["ops"]).is_empty() { "C05:index-op".into() } else { "C05:by-name".into() }
}

pub fn replay(args: &[String]) {
    let seed: u64 = args.get(1).and_then(|s| s.parse().ok()).unwrap_or(1);
    let mut rng = StdRng::seed_from_u64(seed);
    let mut rep = Report::new("zerv");
    let mut errors = 0u64;
    let mut resets = 0u64;
    for case in tlc_lines(&args[0], "REPLAY") {
        let a = &case["a"];
        let want_err = case["err"].as_bool().unwrap();
        let want = norm(&json!({"v": case["v"], "ctx": case["ctx"], "sch": case["sch"]}));
        rep.evaluations += 1;
        if want_err {
            errors += 1;
        }
        if want["v"] != norm(&a["tag"]) {
            resets += 1;
        }
        // two random permutations of the flag order: same answer (order independence)
        let pep = rng.gen_bool(0.4);
        let (argv1, out1, now) = run_case(a, &mut rng, pep);
        let (argv2, out2, _) = run_case(a, &mut rng, pep);
        if rep.evaluations % 4001 == 1 {
            rep.sample(json!({"argv": argv1, "expected": if want_err { json!("error, no output") } else { want["v"].clone() }}));
        }
        let judge = |argv: &Vec<String>, out: &Outcome, rep: &mut Report| match out {
            Outcome::Panic(m) => rep.mismatch("C05:panic", json!({"argv": argv, "observed": {"panic": m}})),
            Outcome::Err(e) => {
                if !want_err {
                    rep.mismatch(&key_for(a), json!({"argv": argv, "expected": want, "observed": {"error": e}}));
                }
            }
            Outcome::Ok(text) => {
                if want_err {
                    rep.mismatch(&key_for(a), json!({"argv": argv, "expected": "error, no output", "observed": text}));
                } else {
                    match Zerv::from_str(text) {
                        Err(e) => rep.mismatch("C05:unparsable-output", json!({"argv": argv, "observed": text, "error": e.to_string()})),
                        Ok(z) => {
                            let got = project(&z, now);
                            if got != want {
                                rep.mismatch(&key_for(a), json!({"argv": argv, "expected": want, "observed": got}));
                            }
                        }
                    }
                }
            }
        };
        judge(&argv1, &out1, &mut rep);
        let proj = |o: &Outcome| match o {
            Outcome::Ok(text) => Zerv::from_str(text).map(|z| project(&z, now)).unwrap_or(json!("unparsable")),
            Outcome::Err(_) => json!("error"),
            Outcome::Panic(_) => json!("panic"),
        };
        if proj(&out1) != proj(&out2) {
            rep.mismatch("C05:flag-order", json!({"argv1": argv1, "argv2": argv2, "out1": out1.text(), "out2": out2.text()}));
        }
    }
    rep.nontrivial = resets;
    rep.extra.insert("expected_errors".into(), json!(errors));
    rep.print();
}

// ------------------------------------------------------------------ recorder --
fn small_or_big(rng: &mut StdRng) -> i64 {
    match rng.gen_range(0..10) {
        0..=5 => rng.gen_range(0..4),
        6..=7 => rng.gen_range(0..1000),
        _ => rng.gen_range(0..(1i64 << 29)),
    }
}

fn random_v(rng: &mut StdRng, allow_unset: bool) -> Value {
    let num = |rng: &mut StdRng, p_none: f64| if rng.gen_bool(p_none) { NONE } else { small_or_big(rng) };
    let pn = if allow_unset { 0.15 } else { 0.0 };
    let label = ["none", "none", "alpha", "beta", "rc"][rng.gen_range(0..5)];
    let epoch = { let e = num(rng, 0.6); if e == 0 && !allow_unset { NONE } else { e } };
    let pre_n = if label == "none" { NONE } else { num(rng, 0.2) };
    // a label without its number can only be written as the last identifier of a tag
    let tail_ok = allow_unset || label == "none" || pre_n != NONE;
    json!({"epoch": epoch, "major": num(rng, pn), "minor": num(rng, pn), "patch": num(rng, pn),
           "pre": {"l": label, "n": pre_n},
           "post": if tail_ok { num(rng, 0.6) } else { NONE }, "dev": if tail_ok { num(rng, 0.7) } else { NONE }})
}

fn c_var(name: &str) -> Value { json!({"t": "var", "v": name, "s": [], "n": 0}) }

fn random_component(rng: &mut StdRng, section: usize, used: &mut Vec<String>) -> Value {
    let ctx_vars = ["Distance", "Dirty", "BumpedBranch", "BumpedCommitHash", "BumpedCommitHashShort", "BumpedTimestamp",
                    "LastBranch", "LastCommitHash", "LastCommitHashShort", "LastTimestamp"];
    let pats = ["YYYY", "YY", "MM", "0M", "DD", "0D", "HH", "0H", "mm", "0m", "SS", "0S", "WW", "0W", "compact_date", "compact_datetime"];
    let texts = ["x", "rel", "A.b", "007", "feature/X", "", "é", "1.2"];
    match rng.gen_range(0..10) {
        0..=3 => {
            // a version variable appropriate (mostly) for the section; occasionally misplaced
            let pool: Vec<&str> = match (section, rng.gen_bool(0.93)) {
                (0, true) => vec!["Major", "Minor", "Patch"],
                (1, true) => vec!["Epoch", "PreRelease", "Post", "Dev"],
                (_, true) => ctx_vars.to_vec(),
                _ => vec!["Major", "Patch", "Epoch", "Dev", "PreRelease"],
            };
            let name = pool[rng.gen_range(0..pool.len())];
            if used.contains(&name.to_string()) && rng.gen_bool(0.9) {
                return c_var(ctx_vars[rng.gen_range(0..ctx_vars.len())]);
            }
            used.push(name.to_string());
            c_var(name)
        }
        4 => c_var(ctx_vars[rng.gen_range(0..ctx_vars.len())]),
        5 => json!({"t": "ts", "v": if rng.gen_bool(0.95) { pats[rng.gen_range(0..pats.len())] } else { "QQ" }, "s": [], "n": 0}),
        6 => json!({"t": "custom", "v": "", "s": to_cps(CUSTOM_KEYS[rng.gen_range(0..CUSTOM_KEYS.len())]), "n": 0}),
        7..=8 => json!({"t": "str", "v": "", "s": to_cps(texts[rng.gen_range(0..texts.len())]), "n": 0}),
        _ => json!({"t": "uint", "v": "", "s": [], "n": small_or_big(rng)}),
    }
}

/// a random schema; primary variables are kept in order most of the time
pub const CUSTOM_KEYS: [&str; 5] = ["k", "a.b", "build_id", "ci/job", "x~1y.z~0"];

pub fn random_schema(rng: &mut StdRng) -> Value {
    let mut used = vec![];
    let mut sec = |rng: &mut StdRng, which: usize| -> Vec<Value> {
        // mostly short sections; one in four is long (more integer components than major.minor.patch can take,
        // literals and text in between)
        let n = if rng.gen_bool(0.25) { rng.gen_range(5..9) } else { rng.gen_range(0..5) };
        let mut v: Vec<Value> = (0..n).map(|_| random_component(rng, which, &mut used)).collect();
        if which == 0 && rng.gen_bool(0.9) {
            // sort the primary variables into major, minor, patch order, in place
            let rank = |c: &Value| ["Major", "Minor", "Patch"].iter().position(|p| c["t"] == "var" && c["v"] == *p);
            let mut prim: Vec<Value> = v.iter().filter(|c| rank(c).is_some()).cloned().collect();
            prim.sort_by_key(|c| rank(c).unwrap());
            let mut it = prim.into_iter();
            for c in v.iter_mut() {
                if rank(c).is_some() {
                    *c = it.next().unwrap();
                }
            }
        }
        v
    };
    let core = sec(rng, 0);
    let extra = sec(rng, 1);
    let build = sec(rng, 2);
    json!({"core": core, "extra": extra, "build": build})
}

pub fn random_args(rng: &mut StdRng) -> Value {
    let fields = ["epoch", "major", "minor", "patch", "prenum", "post", "dev"];
    let mut ov = serde_json::Map::new();
    let mut bp = serde_json::Map::new();
    for f in fields {
        let val = |rng: &mut StdRng| if rng.gen_bool(0.15) { -(rng.gen_range(10..15) as i64) } else { small_or_big(rng) };
        ov.insert(f.into(), json!(if rng.gen_bool(0.2) { val(rng) } else { NONE }));
        bp.insert(f.into(), json!(if rng.gen_bool(0.2) { if rng.gen_bool(0.4) { 1 } else { val(rng) } } else { NONE }));
    }
    let labels = ["alpha", "beta", "rc"];
    ov.insert("label".into(), json!(if rng.gen_bool(0.15) { labels[rng.gen_range(0..3)] } else { "" }));
    bp.insert("label".into(), json!(if rng.gen_bool(0.15) { labels[rng.gen_range(0..3)] } else { "" }));
    let nops = [0, 0, 0, 0, 1, 1, 1, 2, 3][rng.gen_range(0..9)];
    let ops: Vec<Value> = (0..nops).map(|_| {
        let vals = [("num", small_or_big(rng), None), ("num", 1, None), ("text", 0, Some("zz")), ("text", 0, Some("rc")), ("neg", 0, Some("-4"))];
        let (t, n, s) = vals[[0, 0, 0, 1, 2, 3, 4][rng.gen_range(0..7)]].clone();
        let text = s.map(|x| x.to_string()).unwrap_or_else(|| n.to_string());
        let kind = if rng.gen_bool(0.5) { "ov" } else { "bump" };
        let hasval = kind == "ov" && rng.gen_bool(0.95) || kind == "bump" && rng.gen_bool(0.6);
        let sec_name = ["core", "extra", "build"][rng.gen_range(0..3)];
        json!({"sec": sec_name, "kind": kind, "idx": rng.gen_range(-3..4i64), "hasval": hasval,
               "val": if hasval { json!({"t": t, "n": n, "s": to_cps(&text)}) } else { json!({"t": "none", "n": 0, "s": []}) }})
    }).collect();
    let vcs = json!({"distance": if rng.gen_bool(0.3) { small_or_big(rng) } else { NONE },
        "dirty": rng.gen_bool(0.12), "nodirty": rng.gen_bool(0.05), "clean": rng.gen_bool(0.05),
        "branch": if rng.gen_bool(0.3) { rng.gen_range(1..3) } else { NONE }, "hash": if rng.gen_bool(0.3) { 1 } else { NONE },
        "ts": if rng.gen_bool(0.3) { rng.gen_range(0..2_000_000_000i64) } else { NONE },
        "nbc": rng.gen_bool(0.05), "bc": rng.gen_bool(0.05)});
    let suffixes = ["", "-no-context", "-context", "-base", "-base-prerelease", "-base-prerelease-post", "-base-prerelease-post-dev",
                    "-base-context", "-base-prerelease-context", "-base-prerelease-post-context", "-base-prerelease-post-dev-context"];
    let full = json!({"core": [c_var("Major"), c_var("Minor"), c_var("Patch")],
                      "extra": [c_var("Epoch"), c_var("PreRelease"), c_var("Post"), c_var("Dev")], "build": []});
    let mut random_order = |rng: &mut StdRng| -> Value {
        let mut o: Vec<&str> = DEFAULT_ORDER.to_vec();
        match rng.gen_range(0..10) {
            0..=5 => {}
            6..=8 => o.shuffle(rng),
            _ => { o.shuffle(rng); o.truncate(rng.gen_range(0..11)); }
        }
        json!(o)
    };
    let fam = if rng.gen_bool(0.7) { "standard" } else { "calver" };
    let sfx = suffixes[rng.gen_range(0..suffixes.len())];
    let schema = match rng.gen_range(0..10) {
        0..=3 => json!({"kind": "preset", "fam": fam, "suffix": sfx, "sch": full, "order": DEFAULT_ORDER}),
        4..=6 => json!({"kind": "ron", "fam": "", "suffix": "", "sch": random_schema(rng), "order": random_order(rng)}),
        _ => json!({"kind": "none", "fam": "", "suffix": "", "sch": full, "order": DEFAULT_ORDER}),
    };
    let stdin = rng.gen_bool(0.4);
    let unset_ctx = json!({"distance": NONE, "dirty": NONE, "branch": NONE, "hash": NONE, "ts": NONE});
    let dirty3 = [NONE, 0, 1][rng.gen_range(0..3)];
    let src = if stdin {
        json!({"v": random_v(rng, true),
               "ctx": {"distance": if rng.gen_bool(0.5) { small_or_big(rng) } else { NONE }, "dirty": dirty3,
                       "branch": if rng.gen_bool(0.5) { rng.gen_range(1..3) } else { NONE }, "hash": if rng.gen_bool(0.5) { 1 } else { NONE },
                       "ts": if rng.gen_bool(0.5) { rng.gen_range(0..2_000_000_000i64) } else { NONE }},
               "sch": if rng.gen_bool(0.5) { full.clone() } else { random_schema(rng) }, "hasSchema": true, "order": random_order(rng)})
    } else {
        json!({"v": {"epoch": NONE, "major": NONE, "minor": NONE, "patch": NONE, "pre": {"l": "none", "n": NONE}, "post": NONE, "dev": NONE},
               "ctx": unset_ctx, "sch": full, "hasSchema": false, "order": DEFAULT_ORDER})
    };
    let has_tag = !stdin || rng.gen_bool(0.3);
    json!({"src": src, "hasTag": has_tag, "tag": random_v(rng, false), "ov": ov, "bp": bp, "ops": ops, "vcs": vcs, "schema": schema})
}

pub fn record(args: &[String]) {
    use std::io::Write;
    let seed: u64 = args[0].parse().unwrap();
    let n: usize = args[1].parse().unwrap();
    let mut out = std::io::BufWriter::new(std::fs::File::create(&args[2]).unwrap());
    let mut rng = StdRng::seed_from_u64(seed);
    for _ in 0..n {
        let a = random_args(&mut rng);
        let pep = rng.gen_bool(0.4);
        let (argv, outcome, now) = run_case(&a, &mut rng, pep);
        let empty = json!({"kind": "", "v": 0, "ctx": 0, "sch": 0});
        let o = match &outcome {
            Outcome::Ok(text) => match Zerv::from_str(text) {
                Ok(z) => { let p = project(&z, now); json!({"kind": "ok", "v": p["v"], "ctx": p["ctx"], "sch": p["sch"]}) }
                Err(_) => { let mut e = empty.clone(); e["kind"] = json!("unparsable"); e }
            },
            Outcome::Err(_) => { let mut e = empty.clone(); e["kind"] = json!("err"); e }
            Outcome::Panic(_) => { let mut e = empty.clone(); e["kind"] = json!("panic"); e }
        };
        writeln!(out, "{}", json!({"k": "zerv", "a": a, "argv": argv, "out": o})).unwrap();
    }
    out.flush().unwrap();
    println!("{}", json!({"module": "zerv", "events": n}));
}


// ------------------------------------------------------------------ big numbers --
/// C05 at the top of the u64 range (Trace_BigBump): one level of a tag with arbitrary u64 numbers is
/// overridden and / or bumped by name; values travel as decimal texts.
pub fn record_big(args: &[String]) {
    use std::io::Write;
    let seed: u64 = args[0].parse().unwrap();
    let n: usize = args[1].parse().unwrap();
    let mut out = std::io::BufWriter::new(std::fs::File::create(&args[2]).unwrap());
    let mut rng = StdRng::seed_from_u64(seed);
    const POOL: &[u64] = &[0, 1, 2, 9, 2147483647, 2147483648, 4294967294, 4294967295, 4294967296, 4294967297, 9007199254740993,
                           9223372036854775807, 9223372036854775808, 18446744073709551613, 18446744073709551614, 18446744073709551615];
    const NAMES: &[&str] = &["epoch", "major", "minor", "patch", "pre-release-num", "post", "dev"];
    let text = |v: Option<u64>| v.map(|x| to_cps(&x.to_string())).unwrap_or(json!([]));
    let mut pick = |rng: &mut StdRng| -> u64 {
        match rng.gen_range(0..4) { 0 => rng.gen_range(0..5), 1 => rng.r#gen::<u64>(), _ => POOL[rng.gen_range(0..POOL.len())] }
    };
    for _ in 0..n {
        let level = rng.gen_range(1..=7usize);
        // the tag: X.Y.Z-[epoch.E.]rc.N[.post.P][.dev.D] in zerv's canonical SemVer shape
        let start: Vec<Option<u64>> = (1..=7).map(|i| match i {
            1 | 6 | 7 => if rng.gen_bool(0.5) { Some(pick(&mut rng)) } else { None },
            _ => Some(pick(&mut rng)),
        }).collect();
        let mut pre = vec![];
        if let Some(e) = start[0] { pre.push(format!("epoch.{e}")); }
        pre.push(format!("rc.{}", start[4].unwrap()));
        if let Some(p) = start[5] { pre.push(format!("post.{p}")); }
        if let Some(d) = start[6] { pre.push(format!("dev.{d}")); }
        let tag = format!("{}.{}.{}-{}", start[1].unwrap(), start[2].unwrap(), start[3].unwrap(), pre.join("."));
        let (ov, bp) = match rng.gen_range(0..4) {
            0 => (Some(pick(&mut rng)), None),
            1 => (None, Some(pick(&mut rng))),
            2 => (Some(pick(&mut rng)), Some(pick(&mut rng))),
            _ => (None, Some([1u64, 1, 2, 0][rng.gen_range(0..4)])),
        };
        let mut argv: Vec<String> = ["version", "--source", "none", "--input-format", "semver", "--tag-version", &tag,
                                     "--schema", "standard-base-prerelease-post-dev"].iter().map(|s| s.to_string()).collect();
        let mut groups: Vec<Vec<String>> = vec![];
        if let Some(o) = ov { groups.push(vec![format!("--{}", NAMES[level - 1]), o.to_string()]); }
        if let Some(b) = bp { groups.push(vec![format!("--bump-{}", NAMES[level - 1]), b.to_string()]); }
        groups.shuffle(&mut rng);
        for g in groups { argv.extend(g); }
        argv.push("--output-format".into());
        argv.push("zerv".into());
        let o = run_cli(&argv, None);
        let outv = match &o {
            Outcome::Panic(m) => json!({"kind": "panic", "text": m, "v": []}),
            Outcome::Err(e) => json!({"kind": "err", "text": e, "v": []}),
            Outcome::Ok(t) => match Zerv::from_str(t) {
                Err(e) => json!({"kind": "unparsable", "text": e.to_string(), "v": []}),
                Ok(z) => {
                    let v = &z.vars;
                    let pn = v.pre_release.as_ref().and_then(|p| p.number);
                    json!({"kind": "ok", "v": [text(v.epoch), text(v.major), text(v.minor), text(v.patch), text(pn), text(v.post), text(v.dev)]})
                }
            },
        };
        let ev = json!({"k": "big", "argv": argv, "level": level, "start": start.iter().map(|x| text(*x)).collect::<Vec<_>>(),
                        "ov": text(ov), "bp": text(bp), "out": outv});
        writeln!(out, "{ev}").unwrap();
    }
    out.flush().unwrap();
    println!("{}", json!({"module": "bigbump", "events": n}));
}
