//! In-process equivalent of `zerv <argv>` (src/cli/app.rs::run_with_args without reading
//! the process's stdin and without initialising logging): clap parsing of a real argv, then
//! the same pipeline entry points.  A panic is an outcome, not a tool error.
use clap::Parser;
use zerv::cli::{Cli, Commands, run_check_command, run_flow_pipeline, run_render, run_version_pipeline};

#[derive(Debug, Clone, PartialEq)]
pub enum Outcome {
    Ok(String),
    Err(String),
    Panic(String),
}

impl Outcome {
    pub fn ok(&self) -> Option<&str> {
        match self {
            Outcome::Ok(s) => Some(s),
            _ => None,
        }
    }
    pub fn tag(&self) -> &'static str {
        match self {
            Outcome::Ok(_) => "ok",
            Outcome::Err(_) => "err",
            Outcome::Panic(_) => "panic",
        }
    }
    pub fn text(&self) -> &str {
        match self {
            Outcome::Ok(s) | Outcome::Err(s) | Outcome::Panic(s) => s,
        }
    }
}

pub fn run_cli(argv: &[String], stdin: Option<&str>) -> Outcome {
    let argv = argv.to_vec();
    let stdin = stdin.map(|s| s.to_string());
    let r = crate::wire::guarded(move || -> Result<String, String> {
        let mut full = vec!["zerv".to_string()];
        full.extend(argv);
        let cli = Cli::try_parse_from(full).map_err(|e| format!("clap: {}", e.kind()))?;
        let stdin = stdin.filter(|s| !s.trim().is_empty());
        match cli.command {
            Some(Commands::Version(a)) => run_version_pipeline(*a, stdin.as_deref()).map_err(|e| e.to_string()),
            Some(Commands::Flow(a)) => run_flow_pipeline(*a, stdin.as_deref()).map_err(|e| e.to_string()),
            Some(Commands::Check(a)) => run_check_command(a).map_err(|e| e.to_string()),
            Some(Commands::Render(a)) => run_render(*a).map_err(|e| e.to_string()),
            None => Ok(String::new()),
        }
    });
    match r {
        Ok(Ok(s)) => Outcome::Ok(s),
        Ok(Err(e)) => Outcome::Err(e),
        Err(p) => Outcome::Panic(p),
    }
}

pub fn argv(parts: &[&str]) -> Vec<String> {
    parts.iter().map(|s| s.to_string()).collect()
}
