//! C06 (and C01's dedicated part): rendering of a Zerv object as SemVer / PEP 440 against
//! Render.tla.  Objects are built from the specification's schema and assignment records.
use std::io::Write;

use rand::rngs::StdRng;
use rand::{Rng, SeedableRng};
use serde_json::{Value, json};
use zerv::version::pep440::PEP440;
use zerv::version::semver::SemVer;
use zerv::version::zerv::{Component, PreReleaseLabel, PreReleaseVar, Var, Zerv, ZervSchema, ZervVars};

use crate::cli::{Outcome, argv, run_cli};
use crate::wire::*;

const NONE: i64 = -1;

pub fn component(c: &Value) -> Component {
    match c["t"].as_str().unwrap() {
        "str" => Component::Str(cps(&c["s"])),
        "uint" => Component::UInt(c["n"].as_u64().unwrap()),
        "ts" => Component::Var(Var::Timestamp(c["v"].as_str().unwrap().to_string())),
        "custom" => Component::Var(Var::Custom(cps(&c["s"]))),
        _ => Component::Var(match c["v"].as_str().unwrap() {
            "Major" => Var::Major, "Minor" => Var::Minor, "Patch" => Var::Patch, "Epoch" => Var::Epoch,
            "PreRelease" => Var::PreRelease, "Post" => Var::Post, "Dev" => Var::Dev, "Distance" => Var::Distance,
            "Dirty" => Var::Dirty, "BumpedBranch" => Var::BumpedBranch, "BumpedCommitHash" => Var::BumpedCommitHash,
            "BumpedCommitHashShort" => Var::BumpedCommitHashShort, "BumpedTimestamp" => Var::BumpedTimestamp,
            "LastBranch" => Var::LastBranch, "LastCommitHash" => Var::LastCommitHash,
            "LastCommitHashShort" => Var::LastCommitHashShort, "LastTimestamp" => Var::LastTimestamp,
            other => panic!("unknown var {other}"),
        }),
    }
}

fn opt_u(n: &Value) -> Option<u64> {
    let n = n.as_i64().unwrap();
    if n == NONE { None } else { Some(n as u64) }
}

fn opt_text(t: &Value) -> Option<String> {
    if t["s"].as_i64().unwrap() == 0 { None } else { Some(cps(&t["v"])) }
}

/// nested JSON object from dotted leaf paths
fn custom_json(pairs: &Value) -> Value {
    let mut root = serde_json::Map::new();
    for p in arr(pairs) {
        let key = cps(&p[0]);
        let val = cps(&p[1]);
        let path: Vec<&str> = key.split('.').collect();
        let mut cur = &mut root;
        for (i, seg) in path.iter().enumerate() {
            if i + 1 == path.len() {
                cur.insert(seg.to_string(), json!(val));
            } else {
                let e = cur.entry(seg.to_string()).or_insert_with(|| json!({}));
                if !e.is_object() {
                    *e = json!({});
                }
                cur = e.as_object_mut().unwrap();
            }
        }
    }
    Value::Object(root)
}

pub fn build_zerv(sch: &Value, asg: &Value) -> Result<Zerv, String> {
    let sec = |name: &str| arr(&sch[name]).iter().map(component).collect::<Vec<_>>();
    let schema = ZervSchema::new(sec("core"), sec("extra"), sec("build")).map_err(|e| e.to_string())?;
    let v = &asg["v"];
    let pre = if v["pre"]["l"] == "none" {
        None
    } else {
        let label = match v["pre"]["l"].as_str().unwrap() {
            "alpha" => PreReleaseLabel::Alpha,
            "beta" => PreReleaseLabel::Beta,
            _ => PreReleaseLabel::Rc,
        };
        Some(PreReleaseVar { label, number: opt_u(&v["pre"]["n"]) })
    };
    let secs = |t: &Value| opt_text(t).map(|s| s.parse::<u64>().unwrap());
    let vars = ZervVars {
        major: opt_u(&v["major"]), minor: opt_u(&v["minor"]), patch: opt_u(&v["patch"]), epoch: opt_u(&v["epoch"]),
        pre_release: pre, post: opt_u(&v["post"]), dev: opt_u(&v["dev"]),
        distance: opt_u(&asg["distance"]),
        dirty: match asg["dirty"].as_i64().unwrap() { 1 => Some(true), 0 => Some(false), _ => None },
        bumped_branch: opt_text(&asg["branch"]), bumped_commit_hash: opt_text(&asg["hash"]),
        bumped_timestamp: secs(&asg["btsText"]),
        last_branch: opt_text(&asg["lbranch"]), last_commit_hash: opt_text(&asg["lhash"]),
        last_timestamp: secs(&asg["ltsText"]), last_tag_version: None,
        custom: custom_json(&asg["custom"]),
    };
    Ok(Zerv { schema, vars })
}

fn key_for(sv_in: &str) -> &'static str {
    if sv_in.is_ascii() { "C06:render" } else { "C06:render-non-ascii" }
}

/// compare library and pipeline renderings with the expected strings
pub fn judge(rep: &mut Report, sch: &Value, asg: &Value, want_sv: &str, want_pep: &str, cli: Option<(&str, &str)>) {
    let z = match build_zerv(sch, asg) {
        Ok(z) => z,
        Err(e) => {
            rep.mismatch("C06:valid-schema-refused", json!({"schema": sch, "error": e}));
            return;
        }
    };
    let ron = z.to_string();
    rep.evaluations += 1;
    let z1 = z.clone();
    let lib = guarded(move || (SemVer::from(z1.clone()).to_string(), PEP440::from(z1).to_string()));
    match lib {
        Err(m) => rep.mismatch("C06:panic", json!({"zerv": ron, "observed": {"panic": m}})),
        Ok((sv, pep)) => {
            if sv != want_sv || pep != want_pep {
                rep.mismatch(key_for(&ron), json!({"zerv": ron, "expected": {"semver": want_sv, "pep440": want_pep},
                                                   "observed": {"semver": sv, "pep440": pep}}));
            }
        }
    }
    if let Some((nsv, npep)) = cli {
        for (fmt, want) in [("semver", nsv), ("pep440", npep)] {
            rep.evaluations += 1;
            match run_cli(&argv(&["version", "--source", "stdin", "--output-format", fmt]), Some(&ron)) {
                Outcome::Ok(o) if o == want => {}
                o => rep.mismatch(key_for(&ron), json!({"zerv": ron, "format": fmt, "expected": want,
                                                        "observed": {"kind": o.tag(), "text": o.text()}})),
            }
        }
    }
}

fn uses_clock(sch: &Value) -> bool {
    ["core", "extra", "build"].iter().any(|s| {
        arr(&sch[*s]).iter().any(|c| c["t"] == "ts" || (c["t"] == "var" && c["v"] == "BumpedTimestamp"))
    })
}

pub fn replay(args: &[String]) {
    let assigns = arr(&tlc_lines(&args[0], "ASSIGN")[0]);
    let mut rep = Report::new("render");
    let mut distinct = std::collections::HashSet::new();
    for case in tlc_lines(&args[0], "REPLAY") {
        let sch = &case["sch"];
        let outs = arr(&case["out"]);
        for (k, asg) in assigns.iter().enumerate() {
            let want_sv = cps(&outs[k]["semver"]);
            let want_pep = cps(&outs[k]["pep440"]);
            distinct.insert(want_sv.clone());
            // a dirty object is re-stamped with the wall clock by the pipeline: library only then
            let dirty = asg["dirty"].as_i64().unwrap() == 1;
            let (nsv, npep) = (cps(&outs[k]["nsemver"]), cps(&outs[k]["npep440"]));
            let cli = if dirty && uses_clock(sch) { None } else { Some((nsv.as_str(), npep.as_str())) };
            judge(&mut rep, sch, asg, &want_sv, &want_pep, cli);
            if rep.evaluations % 30011 < 3 {
                rep.sample(json!({"schema": crate::zmodel::schema_ron(sch), "assignment": k + 1, "semver": want_sv, "pep440": want_pep}));
            }
        }
    }
    rep.nontrivial = distinct.len() as u64;
    rep.print();
}

// ------------------------------------------------------------------ recorder --
const TEXTS: &[&str] = &["main", "feature/X-1", "release/1.2", "007", "a..b", "--", "é", "Ünï/çødé", "1.2", "v1", "HEAD", "",
                         "0", "x_y", "UPPER", "日本", "a1b2c3d4e5f60718", "deadbeefcafe", "0123456789abcdef", "\u{212A}1",
                         "release/018446744073709551616", "00000000000000000000000001", "v0004294967296", "99999999999999999999999",
                         "Łódź/ř测"];

fn text_opt(rng: &mut StdRng, p_none: f64, ascii_only: bool) -> Value {
    if rng.gen_bool(p_none) {
        return json!({"s": 0, "v": []});
    }
    loop {
        let t = TEXTS[rng.gen_range(0..TEXTS.len())];
        if !ascii_only || t.is_ascii() {
            return json!({"s": 1, "v": to_cps(t)});
        }
    }
}

fn num(rng: &mut StdRng, p_none: f64) -> i64 {
    if rng.gen_bool(p_none) { NONE } else {
        match rng.gen_range(0..10) { 0..=5 => rng.gen_range(0..12), 6..=7 => rng.gen_range(0..100000), _ => rng.gen_range(0..i32::MAX as i64) }
    }
}

/// calendar records the specification can use directly (it re-validates them with Calendar!ValidCivil)
fn instant(rng: &mut StdRng, p_none: f64) -> (Value, Value) {
    if rng.gen_bool(p_none) {
        return (json!({"c": {"day": 0, "y": 1970, "m": 1, "d": 1, "wd": 3, "yd": 1}, "sod": -1}), json!({"s": 0, "v": []}));
    }
    // anchors, the range the calendar automaton walks, the far future, and years with five digits
    let day: u64 = match rng.gen_range(0..10) {
        0..=3 => [19782u64, 47541, 0, 10957][rng.gen_range(0..4)],
        4..=5 => rng.gen_range(0..=84005),
        6..=7 => rng.gen_range(84006..=2_932_896),
        8 => [2_932_896u64, 2_932_897, 115_740][rng.gen_range(0..3)],
        _ => rng.gen_range(2_932_897..=3_000_000),
    };
    let sod: u64 = rng.gen_range(0..86400);
    (json!({"c": civil_json(day), "sod": sod}), json!({"s": 1, "v": to_cps(&(day * 86400 + sod).to_string())}))
}

pub fn random_assignment(rng: &mut StdRng) -> Value {
    let label = ["none", "alpha", "beta", "rc"][rng.gen_range(0..4)];
    let (bts, bts_text) = instant(rng, 0.5);
    let (lts, lts_text) = instant(rng, 0.6);
    let ncustom = rng.gen_range(0..6);
    // keys with characters that mean something in other path syntaxes (JSON pointer: / ~0 ~1) are plain keys here
    let keys = crate::zmodel::CUSTOM_KEYS;
    let custom: Vec<Value> = (0..ncustom).map(|i| json!([to_cps(keys[i]), to_cps(TEXTS[rng.gen_range(0..TEXTS.len())])])).collect();
    let dirty4 = [NONE, 0, 0, 1][rng.gen_range(0..4)];
    json!({"v": {"epoch": num(rng, 0.6), "major": num(rng, 0.1), "minor": num(rng, 0.15), "patch": num(rng, 0.15),
                 "pre": {"l": label, "n": if label == "none" { NONE } else { num(rng, 0.2) }}, "post": num(rng, 0.5), "dev": num(rng, 0.6)},
           "distance": num(rng, 0.4), "dirty": dirty4,
           // hashes are sliced by bytes in zerv (C13 covers non-ASCII hashes); keep them ASCII here
           "branch": text_opt(rng, 0.3, false), "hash": text_opt(rng, 0.4, true), "custom": custom,
           "bts": bts, "btsText": bts_text, "lts": lts, "ltsText": lts_text,
           "lbranch": text_opt(rng, 0.6, false), "lhash": text_opt(rng, 0.6, true)})
}

pub fn record(args: &[String]) {
    let seed: u64 = args[0].parse().unwrap();
    let n: usize = args[1].parse().unwrap();
    let mut out = std::io::BufWriter::new(std::fs::File::create(&args[2]).unwrap());
    let mut rng = StdRng::seed_from_u64(seed);
    let mut written = 0;
    while written < n {
        let sch = crate::zmodel::random_schema(&mut rng);
        let asg = random_assignment(&mut rng);
        let Ok(z) = build_zerv(&sch, &asg) else { continue };   // only schemas that pass validation
        let z1 = z.clone();
        let lib = guarded(move || (SemVer::from(z1.clone()).to_string(), PEP440::from(z1).to_string()));
        let ev = match lib {
            Ok((sv, pep)) => json!({"k": "render", "sch": sch, "st": asg, "panic": false, "semver": to_cps(&sv), "pep440": to_cps(&pep)}),
            Err(_) => json!({"k": "render", "sch": sch, "st": asg, "panic": true, "semver": [], "pep440": []}),
        };
        writeln!(out, "{ev}").unwrap();
        written += 1;
    }
    out.flush().unwrap();
    println!("{}", json!({"module": "render", "events": n}));
}
