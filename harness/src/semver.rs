//! C08: SemVer::from_str / to_string / `check --format semver` against SemVerGrammar.
use std::io::Write;
use std::str::FromStr;

use rand::rngs::StdRng;
use rand::{Rng, SeedableRng};
use serde_json::{Value, json};
use zerv::cli::{CheckArgs, run_check_command};
use zerv::version::semver::SemVer;

use crate::wire::*;

/// (accepted, printed form, verdict of `zerv check --format semver`)
pub fn observe(s: &str) -> Result<(bool, String, bool), String> {
    let s1 = s.to_string();
    let s2 = s.to_string();
    let parsed = guarded(move || SemVer::from_str(&s1).map(|v| v.to_string()))?;
    let chk = guarded(move || {
        run_check_command(CheckArgs { version: s2, format: Some("semver".to_string()) }).is_ok()
    })?;
    Ok(match parsed {
        Ok(p) => (true, p, chk),
        Err(_) => (false, String::new(), chk),
    })
}

fn key_for(s: &str) -> &'static str {
    if !s.is_ascii() {
        "C08:non-ascii-input"
    } else if s.split(|c: char| !c.is_ascii_digit()).any(|t| t.len() >= 20) {
        "C08:number-beyond-u64"
    } else {
        "C08:ascii"
    }
}

pub fn replay(args: &[String]) {
    let mut rep = Report::new("semver");
    for case in tlc_lines(&args[0], "REPLAY") {
        let s = cps(&case["s"]);
        let ok = case["ok"].as_bool().unwrap();
        let printed = cps(&case["printed"]);
        rep.evaluations += 1;
        if ok {
            rep.nontrivial += 1;
            rep.sample(json!({"s": s, "accepted": ok, "printed": printed}));
        }
        match observe(&s) {
            Err(msg) => rep.mismatch("C08:panic", json!({"s": s, "observed": {"panic": msg}})),
            Ok((o_ok, o_printed, o_chk)) => {
                if o_ok != ok || (ok && o_printed != printed) || o_chk != ok {
                    rep.mismatch(
                        key_for(&s),
                        json!({"s": s, "expected": {"accepted": ok, "printed": printed},
                               "observed": {"accepted": o_ok, "printed": o_printed, "check": o_chk}}),
                    );
                }
            }
        }
    }
    rep.print();
}

const NUMS: &[&str] = &[
    "0", "1", "7", "10", "007", "00", "4294967295", "4294967296", "18446744073709551615",
    "18446744073709551616", "9999999999999999999999999", "123456789", "18446744073709551614", "4294967294", "2147483648",
    "9223372036854775807", "9223372036854775808", "000", "0000000000000000000000",
];
const IDS: &[&str] = &["alpha", "rc", "x", "-", "a-b", "0a", "00a", "A1", "Z", "beta2", "--1", "post", "dev", "epoch"];
const JUNK: &[char] = &[
    '0', '1', '9', 'a', 'Z', '-', '.', '+', 'v', ' ', '\t', '\n', '\0', '_', '!', '٢', '۵', 'é', 'ſ',
    '\u{212A}', '𝟘', '/', '*',
];

fn tok(rng: &mut StdRng, pool: &[&str]) -> String {
    pool[rng.gen_range(0..pool.len())].to_string()
}

/// a mostly-valid SemVer assembled from tokens, then mutated a little
pub fn random_version(rng: &mut StdRng) -> String {
    let mut s = String::new();
    if rng.gen_bool(0.2) {
        s.push('v');
    }
    s += &format!("{}.{}.{}", tok(rng, NUMS), tok(rng, NUMS), tok(rng, NUMS));
    if rng.gen_bool(0.6) {
        s.push('-');
        let n = rng.gen_range(1..6);
        let ids: Vec<String> =
            (0..n).map(|_| if rng.gen_bool(0.5) { tok(rng, NUMS) } else { tok(rng, IDS) }).collect();
        s += &ids.join(".");
    }
    if rng.gen_bool(0.5) {
        s.push('+');
        let n = rng.gen_range(1..5);
        let ids: Vec<String> =
            (0..n).map(|_| if rng.gen_bool(0.5) { tok(rng, NUMS) } else { tok(rng, IDS) }).collect();
        s += &ids.join(".");
    }
    let muts = if rng.gen_bool(0.5) { 0 } else { rng.gen_range(1..3) };
    let mut cs: Vec<char> = s.chars().collect();
    for _ in 0..muts {
        let c = JUNK[rng.gen_range(0..JUNK.len())];
        let pos = rng.gen_range(0..=cs.len());
        match rng.gen_range(0..3) {
            0 => cs.insert(pos, c),
            1 if !cs.is_empty() => {
                cs.remove(pos.min(cs.len() - 1));
            }
            _ if !cs.is_empty() => {
                let i = pos.min(cs.len() - 1);
                cs[i] = c;
            }
            _ => {}
        }
    }
    cs.into_iter().collect()
}

pub fn record(args: &[String]) {
    let seed: u64 = args[0].parse().unwrap();
    let n: usize = args[1].parse().unwrap();
    let mut out = std::io::BufWriter::new(std::fs::File::create(&args[2]).unwrap());
    let mut rng = StdRng::seed_from_u64(seed);
    for _ in 0..n {
        let s = random_version(&mut rng);
        let ev = match observe(&s) {
            Ok((ok, printed, chk)) => {
                json!({"k": "semver", "s": to_cps(&s), "panic": false, "ok": ok, "printed": to_cps(&printed), "check": chk})
            }
            Err(_) => json!({"k": "semver", "s": to_cps(&s), "panic": true, "ok": false, "printed": [], "check": false}),
        };
        writeln!(out, "{ev}").unwrap();
    }
    out.flush().unwrap();
    println!("{}", json!({"module": "semver", "events": n}));
}

#[allow(dead_code)]
pub fn unused(_: &Value) {}
