//! C12 / C01: the whole `zerv version` command.  MC_Zerv behaviours (ZervModel ; Render) are run
//! with semver / pep440 output directly and piped through Zerv RON; every produced object is
//! parsed back and re-emitted; every output line is logged for Trace_Output (well-formedness).
use std::io::Write;
use std::str::FromStr;

use rand::rngs::StdRng;
use rand::{Rng, SeedableRng};
use serde_json::{Value, json};
use zerv::version::zerv::Zerv;

use crate::cli::{Outcome, argv, run_cli};
use crate::wire::*;

fn with_format(base: &[String], fmt: &str, prefix: Option<&str>) -> Vec<String> {
    // base ends with "--output-format zerv"
    let mut a = base[..base.len() - 1].to_vec();
    a.push(fmt.to_string());
    if let Some(p) = prefix {
        a.push("--output-prefix".into());
        a.push(p.into());
    }
    a
}

fn check_accepts(fmt: &str, text: &str) -> bool {
    matches!(run_cli(&argv(&["check", text, "--format", fmt]), None), Outcome::Ok(_))
}

fn rerender(fmt: &str, text: &str) -> Value {
    match run_cli(&argv(&["render", text, "-f", fmt, "--output-format", fmt]), None) {
        Outcome::Ok(s) => json!({"ok": true, "s": to_cps(&s)}),
        _ => json!({"ok": false, "s": []}),
    }
}

/// one output line as an event for Trace_Output
fn out_event(fmt: &str, prefix: &str, text: &str, preset: bool, origin: &str) -> Value {
    let version = text.strip_prefix(prefix).unwrap_or(text);
    json!({"k": "out", "fmt": fmt, "prefix": to_cps(prefix), "text": to_cps(text), "origin": origin,
           "check": check_accepts(fmt, version), "preset": preset, "rerender": rerender(fmt, version)})
}

/// decimal numbers within ten minutes of the wall clock are the documented re-stamp of a dirty state
fn mask_now(text: &str) -> String {
    let now = std::time::SystemTime::now().duration_since(std::time::UNIX_EPOCH).unwrap().as_secs();
    let mut out = String::new();
    let mut digits = String::new();
    let flush = |digits: &mut String, out: &mut String| {
        if !digits.is_empty() {
            match digits.parse::<u64>() {
                Ok(n) if n.saturating_add(600) >= now && n <= now + 60 => out.push_str("<NOW>"),
                _ => out.push_str(digits),
            }
            digits.clear();
        }
    };
    for c in text.chars() {
        if c.is_ascii_digit() { digits.push(c) } else { flush(&mut digits, &mut out); out.push(c) }
    }
    flush(&mut digits, &mut out);
    out
}

pub fn replay(args: &[String]) {
    let seed: u64 = args.get(2).and_then(|s| s.parse().ok()).unwrap_or(1);
    let mut rng = StdRng::seed_from_u64(seed);
    let mut rep = Report::new("pipe");
    let mut out = std::io::BufWriter::new(std::fs::File::create(&args[1]).unwrap());
    for case in tlc_lines(&args[0], "REPLAY") {
        if case["err"].as_bool().unwrap() {
            continue;
        }
        let a = &case["a"];
        let pep = rng.gen_bool(0.4);
        let (argv_z, first, _) = crate::zmodel::run_case(a, &mut rng, pep);
        rep.evaluations += 1;
        let Outcome::Ok(ron) = &first else {
            rep.mismatch("C12:producer-failed", json!({"argv": argv_z, "observed": {"kind": first.tag(), "text": first.text()}}));
            continue;
        };
        // (1) parse back to an identical object, re-emit byte-identically
        match Zerv::from_str(ron) {
            Err(e) => rep.mismatch("C12:emitted-object-not-parsable", json!({"argv": argv_z, "ron": ron, "error": e.to_string()})),
            Ok(z) => {
                let again = z.to_string();
                if &again != ron {
                    rep.mismatch("C12:re-emission-differs", json!({"argv": argv_z, "first": ron, "second": again}));
                } else if Zerv::from_str(&again).ok().as_ref() != Some(&z) {
                    rep.mismatch("C12:parse-back-differs", json!({"argv": argv_z, "ron": ron}));
                }
            }
        }
        let clock = case["clock"].as_bool().unwrap();
        let preset = a["schema"]["kind"] == "preset" || a["schema"]["kind"] == "none";
        for fmt in ["semver", "pep440"] {
            let want = cps(&case[fmt]);
            let direct = run_cli(&with_format(&argv_z, fmt, None), None);
            let piped = run_cli(&argv(&["version", "--source", "stdin", "--output-format", fmt]), Some(ron));
            rep.evaluations += 2;
            match (&direct, &piped) {
                (Outcome::Ok(d), Outcome::Ok(p)) => {
                    if !clock && d != &want {
                        rep.mismatch("C12:direct-rendering", json!({"argv": argv_z, "format": fmt, "expected": want, "observed": d}));
                    }
                    if !clock && p != d {
                        rep.mismatch("C12:piped-differs-from-direct", json!({"argv": argv_z, "format": fmt, "direct": d, "piped": p, "ron": ron}));
                    }
                    // with the wall clock in play (a dirty state is re-stamped on both sides) the two renderings
                    // still agree once numbers that are the wall clock of just now are masked; a difference is
                    // confirmed by a second producer / consumer pair before it is reported (midnight, second ticks)
                    if clock && mask_now(p) != mask_now(d) {
                        let d2 = run_cli(&with_format(&argv_z, fmt, None), None);
                        let ron2 = run_cli(&argv_z, None);
                        let p2 = match &ron2 { Outcome::Ok(r) => run_cli(&argv(&["version", "--source", "stdin", "--output-format", fmt]), Some(r)), _ => Outcome::Err(String::new()) };
                        if let (Outcome::Ok(d2), Outcome::Ok(p2)) = (&d2, &p2) {
                            if mask_now(p2) != mask_now(d2) {
                                rep.mismatch("C12:piped-differs-from-direct", json!({"argv": argv_z, "format": fmt, "direct": d2, "piped": p2, "wall_clock": true}));
                            }
                        }
                    }
                    if rep.evaluations % 40 < 2 {
                        writeln!(out, "{}", out_event(fmt, "", d, preset, "direct")).unwrap();
                        // ordinary prefixes, digit / dot prefixes, and the adversarial one: the first characters of the version itself
                        let own: String = d.chars().take(rng.gen_range(1..4)).collect();
                        let pool = ["v", "release-", "V_", "1", "1.", "0", "2!", "10", own.as_str()];
                        let pfx = pool[rng.gen_range(0..pool.len())].to_string();
                        if let Outcome::Ok(pd) = run_cli(&with_format(&argv_z, fmt, Some(&pfx)), None) {
                            writeln!(out, "{}", out_event(fmt, &pfx, &pd, preset, "prefixed")).unwrap();
                        }
                    }
                    if rep.evaluations % 4001 < 2 {
                        rep.sample(json!({"argv": with_format(&argv_z, fmt, None), "expected": want, "piped": p}));
                    }
                    if d != &cps(&json!([])) {
                        rep.nontrivial += 1;
                    }
                }
                _ => rep.mismatch("C12:rendering-failed", json!({"argv": argv_z, "format": fmt,
                        "direct": {"kind": direct.tag(), "text": direct.text()}, "piped": {"kind": piped.tag(), "text": piped.text()}})),
            }
        }
    }
    out.flush().unwrap();
    rep.print();
}

// --------------------------------------------------- C01 dedicated recorder --
pub const PRESETS: &[&str] = &["standard", "standard-no-context", "standard-context", "standard-base", "standard-base-prerelease",
    "standard-base-prerelease-post", "standard-base-prerelease-post-dev", "standard-base-context", "standard-base-prerelease-context",
    "standard-base-prerelease-post-context", "standard-base-prerelease-post-dev-context",
    "calver", "calver-no-context", "calver-context", "calver-base", "calver-base-prerelease", "calver-base-prerelease-post",
    "calver-base-prerelease-post-dev", "calver-base-context", "calver-base-prerelease-context",
    "calver-base-prerelease-post-context", "calver-base-prerelease-post-dev-context"];
const HOSTILE: &[&str] = &["feature/Ünï-çødé", "日本語/ブランチ", "a..b", "--", "007", "0", "x\u{0}y", "tab\there", "q\"uote'", "back\\slash",
    "new\nline", "UPPER.Case", "é", "\u{212A}elvin", "\u{0130}stanbul", "😀/emoji", "release/018446744073709551616", "+plus+", "a b c",
    "", "-", ".", "v1.2.3", "1.2.3", "main", "feature/x", "00000000000000000000000000000001"];

fn hostile(rng: &mut StdRng) -> &'static str {
    HOSTILE[rng.gen_range(0..HOSTILE.len())]
}

pub fn record(args: &[String]) {
    let seed: u64 = args[0].parse().unwrap();
    let n: usize = args[1].parse().unwrap();
    let mut out = std::io::BufWriter::new(std::fs::File::create(&args[2]).unwrap());
    let mut rng = StdRng::seed_from_u64(seed);
    let mut written = 0;
    while written < n {
        // an object with hostile text in every free-text position, through stdin
        let mut asg = crate::render::random_assignment(&mut rng);
        for f in ["branch", "lbranch"] {
            if rng.gen_bool(0.7) {
                asg[f] = json!({"s": 1, "v": to_cps(hostile(&mut rng))});
            }
        }
        let ncustom = rng.gen_range(0..3);
        asg["custom"] = Value::Array((0..ncustom).map(|i| json!([to_cps(["k", "a.b", "build_id"][i]), to_cps(hostile(&mut rng))])).collect());
        let mut sch = crate::zmodel::random_schema(&mut rng);
        // hostile str() literals
        for sec in ["core", "extra", "build"] {
            for c in sch[sec].as_array_mut().unwrap() {
                if c["t"] == "str" && rng.gen_bool(0.6) {
                    c["s"] = to_cps(hostile(&mut rng));
                }
            }
        }
        let Ok(z) = crate::render::build_zerv(&sch, &asg) else { continue };
        let ron = z.to_string();
        let preset = rng.gen_bool(0.5);
        let mut a = argv(&["version", "--source", "stdin"]);
        if preset {
            a.extend(argv(&["--schema", PRESETS[rng.gen_range(0..PRESETS.len())]]));
        }
        for (flag, p) in [("--bump-patch", 0.15), ("--bump-minor", 0.1), ("--bump-pre-release-num", 0.1), ("--bump-post", 0.1), ("--dirty", 0.1), ("--bump-epoch", 0.05)] {
            if rng.gen_bool(p) {
                a.push(flag.to_string());
            }
        }
        for (flag, p) in [("--major", 0.1), ("--post", 0.1), ("--dev", 0.1), ("--distance", 0.15), ("--pre-release-num", 0.1)] {
            if rng.gen_bool(p) {
                a.extend(argv(&[flag, &rng.gen_range(0..1000).to_string()]));
            }
        }
        if rng.gen_bool(0.15) {
            a.extend(argv(&["--bumped-branch", hostile(&mut rng)]));
        }
        if rng.gen_bool(0.1) {
            a.extend(argv(&["--bumped-commit-hash", ["abc", "g0123456789abcdef0123", "DEADBEEF", "0000000"][rng.gen_range(0..4)]]));
        }
        let fmt = if rng.gen_bool(0.5) { "semver" } else { "pep440" };
        let prefix = if rng.gen_bool(0.2) { ["v", "rel-"][rng.gen_range(0..2)] } else { "" };
        a.extend(argv(&["--output-format", fmt]));
        if !prefix.is_empty() {
            a.extend(argv(&["--output-prefix", prefix]));
        }
        match run_cli(&a, Some(&ron)) {
            Outcome::Ok(text) => {
                writeln!(out, "{}", out_event(fmt, prefix, &text, preset, "hostile")).unwrap();
                written += 1;
            }
            Outcome::Err(_) => {}
            Outcome::Panic(m) => {
                writeln!(out, "{}", json!({"k": "panic", "argv": a, "stdin": ron, "text": m})).unwrap();
                written += 1;
            }
        }
    }
    out.flush().unwrap();
    println!("{}", json!({"module": "pipe", "events": n}));
}
