include!("/repo/src/main.rs");
