//! A fake `git` for fault injection (C13).  Placed first on PATH under the name `git`.
//! Environment: ZV_SHIM_DIR (state directory: `count`, `log`, `plan`), ZV_REAL_GIT.
//! plan file: lines "<ordinal> <mode>"; the k-th invocation (1-based, per state directory) with a
//! planned mode misbehaves, every other invocation is passed to the real git.
use std::io::Write;
use std::os::unix::process::CommandExt;
use std::process::Command;

fn main() {
    let dir = std::env::var("ZV_SHIM_DIR").expect("ZV_SHIM_DIR");
    let real = std::env::var("ZV_REAL_GIT").unwrap_or_else(|_| "/usr/bin/git".into());
    let args: Vec<String> = std::env::args().skip(1).collect();
    let count_path = format!("{dir}/count");
    let k: u32 = std::fs::read_to_string(&count_path).ok().and_then(|s| s.trim().parse().ok()).unwrap_or(0) + 1;
    std::fs::write(&count_path, k.to_string()).unwrap();
    if let Ok(mut f) = std::fs::OpenOptions::new().create(true).append(true).open(format!("{dir}/log")) {
        let _ = writeln!(f, "{k} {}", args.join(" "));
    }
    let plan = std::fs::read_to_string(format!("{dir}/plan")).unwrap_or_default();
    let mode = plan.lines().filter_map(|l| l.split_once(' ')).find(|(o, _)| o.parse::<u32>().ok() == Some(k)).map(|(_, m)| m.trim().to_string());
    let fail = |code: i32, msg: &str| -> ! {
        if !msg.is_empty() {
            eprintln!("{msg}");
        }
        std::process::exit(code)
    };
    match mode.as_deref() {
        None | Some("pass") => {
            let err = Command::new(&real).args(&args).exec();
            eprintln!("shim: cannot exec real git: {err}");
            std::process::exit(127)
        }
        Some("fail-empty") => fail(1, ""),
        Some("fail-generic") => fail(128, "fatal: something went wrong\nhint: try again"),
        Some("fail-notrepo") => fail(128, "fatal: not a git repository (or any of the parent directories): .git"),
        Some("fail-nohead") => fail(128, "fatal: ambiguous argument 'HEAD': unknown revision or path not in the working tree."),
        Some("fail-perm") => fail(128, "fatal: unable to access '.git/config': Permission denied"),
        Some("fail-corrupt") => fail(128, "error: object file .git/objects/ab/cd is empty\nfatal: bad object HEAD"),
        Some("fail-shallow") => fail(128, "fatal: shallow file has changed since we read it"),
        Some("fail-nonutf8") => {
            let _ = std::io::stderr().write_all(&[0xff, 0xfe, b'x', b'\n']);
            std::process::exit(1)
        }
        Some("garbage-nonutf8") => {
            let _ = std::io::stdout().write_all(&[0xff, 0xfe, 0xfd, b'\n']);
            std::process::exit(0)
        }
        Some("garbage-text") => {
            println!("this is not what you expected");
            std::process::exit(0)
        }
        Some("garbage-number") => {
            println!("99999999999999999999999999");
            std::process::exit(0)
        }
        Some("garbage-negative") => {
            println!("-1");
            std::process::exit(0)
        }
        Some("garbage-huge") => {
            let chunk = "x".repeat(1000);
            let mut out = std::io::stdout().lock();
            for _ in 0..1000 {
                let _ = writeln!(out, "{chunk}");
            }
            std::process::exit(0)
        }
        Some("garbage-empty") => std::process::exit(0),
        Some("killed") => {
            unsafe { libc_kill() };
            std::process::exit(137)
        }
        Some(other) => fail(2, &format!("shim: unknown mode {other}")),
    }
}

unsafe fn libc_kill() {
    unsafe extern "C" {
        fn kill(pid: i32, sig: i32) -> i32;
        fn getpid() -> i32;
    }
    unsafe { kill(getpid(), 9) };
}
