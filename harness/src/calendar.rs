//! C17: resolve_timestamp and the CalVer / ts(...) schema components against Calendar.
use std::io::Write;

use rand::rngs::StdRng;
use rand::{Rng, SeedableRng};
use serde_json::json;
use zerv::version::zerv::resolve_timestamp;

use crate::cli::{Outcome, argv, run_cli};
use crate::wire::*;

fn resolve(p: &str, ts: u64) -> Result<String, String> {
    let p = p.to_string();
    match guarded(move || resolve_timestamp(&p, ts)) {
        Ok(Ok(s)) => Ok(s),
        Ok(Err(e)) => Err(format!("error: {e}")),
        Err(m) => Err(format!("panic: {m}")),
    }
}

pub fn replay(args: &[String]) {
    let pats: Vec<String> =
        arr(&tlc_lines(&args[0], "PATTERNS")[0]).iter().map(|v| v.as_str().unwrap().to_string()).collect();
    let idx = |name: &str| pats.iter().position(|p| p == name).unwrap();
    let (iy, im, id) = (idx("YYYY"), idx("MM"), idx("DD"));
    let mut rep = Report::new("calendar");
    let mut pipeline_runs = 0u64;
    for case in tlc_lines(&args[0], "REPLAY") {
        let day = case["day"].as_u64().unwrap();
        let dom = case["d"].as_u64().unwrap();
        rep.nontrivial += 1;
        for inst in arr(&case["inst"]) {
            let sod = inst["sod"].as_u64().unwrap();
            let ts = day * 86400 + sod;
            let f: Vec<String> = arr(&inst["f"]).iter().map(cps).collect();
            for (k, p) in pats.iter().enumerate() {
                rep.evaluations += 1;
                match resolve(p, ts) {
                    Ok(o) if o == f[k] => {}
                    Ok(o) => rep.mismatch("C17:field", json!({"pattern": p, "timestamp": ts, "expected": f[k], "observed": o})),
                    Err(e) => rep.mismatch("C17:error", json!({"pattern": p, "timestamp": ts, "expected": f[k], "observed": e})),
                }
            }
            if rep.evaluations % 50_000 < 16 {
                rep.sample(json!({"timestamp": ts, "fields": pats.iter().cloned().zip(f.iter().cloned()).collect::<Vec<_>>()}));
            }
            // through the pipeline on month / year boundaries: CalVer presets and ts(...) by name
            if (dom == 1 || dom >= 28) && sod != 0 {
                pipeline_runs += 1;
                let tss = ts.to_string();
                let want_sem = format!("{}.{}.{}-3", f[iy], f[im], f[id]);
                let want_pep = format!("{}.{}.{}.3", f[iy], f[im], f[id]);
                let presets = ["calver-base", "calver", "calver-no-context", "calver-base-prerelease-post-dev"];
                let preset = presets[(day % 4) as usize];
                for (fmt, want) in [("semver", &want_sem), ("pep440", &want_pep)] {
                    rep.evaluations += 1;
                    let a = argv(&["version", "--source", "none", "--tag-version", "1.2.3", "--schema", preset,
                                   "--bumped-timestamp", &tss, "--output-format", fmt]);
                    match run_cli(&a, None) {
                        Outcome::Ok(o) if &o == want => {}
                        o => rep.mismatch("C17:calver-preset", json!({"argv": a, "expected": want, "observed": {"kind": o.tag(), "text": o.text()}})),
                    }
                }
                // every pattern accepted by name in a schema and producing its value (build
                // metadata keeps the text; the uint rule strips leading zeros in core)
                let k = (day % pats.len() as u64) as usize;
                let ron = format!("(core:[var(Major)],extra_core:[],build:[var(ts(\"{}\"))])", pats[k]);
                let a = argv(&["version", "--source", "none", "--tag-version", "1.2.3", "--schema-ron", &ron,
                               "--bumped-timestamp", &tss, "--output-format", "semver"]);
                let stripped = {
                    let t = f[k].trim_start_matches('0');
                    if t.is_empty() { "0".to_string() } else { t.to_string() }
                };
                let want = format!("1.0.0+{stripped}");
                rep.evaluations += 1;
                match run_cli(&a, None) {
                    Outcome::Ok(o) if o == want => {}
                    o => rep.mismatch("C17:ts-component", json!({"argv": a, "expected": want, "observed": {"kind": o.tag(), "text": o.text()}})),
                }
                // the commit time decides whenever it is known - also when the tag's time is LATER (history
                // rewritten, clock skew) or earlier: both through stdin RON
                if day % 8 == 4 {
                    for other in [ts + 86_400 * 40, ts.saturating_sub(86_400 * 400), ts + 1, u32::MAX as u64 + 7] {
                        let ron_in = format!(
                            "(schema:(core:[var(ts(\"YYYY\")),var(ts(\"MM\")),var(ts(\"DD\"))],extra_core:[],build:[]),vars:(major:Some(1),minor:Some(2),patch:Some(3),bumped_timestamp:Some({ts}),last_timestamp:Some({other})))"
                        );
                        let a = argv(&["version", "--source", "stdin", "--output-format", "semver"]);
                        let want = format!("{}.{}.{}", f[iy], f[im], f[id]);
                        rep.evaluations += 1;
                        match run_cli(&a, Some(&ron_in)) {
                            Outcome::Ok(o) if o == want => {}
                            o => rep.mismatch("C17:commit-time-decides", json!({"stdin": ron_in, "expected": want, "observed": {"kind": o.tag(), "text": o.text()}})),
                        }
                    }
                }
                // without a bumped timestamp the tag time (last_timestamp) is used: via stdin RON
                if day % 8 == 0 {
                    let ron_in = format!(
                        "(schema:(core:[var(ts(\"YYYY\")),var(ts(\"MM\")),var(ts(\"DD\"))],extra_core:[],build:[]),vars:(major:Some(1),minor:Some(2),patch:Some(3),last_timestamp:Some({ts})))"
                    );
                    let a = argv(&["version", "--source", "stdin", "--output-format", "semver"]);
                    let want = format!("{}.{}.{}", f[iy], f[im], f[id]);
                    rep.evaluations += 1;
                    match run_cli(&a, Some(&ron_in)) {
                        Outcome::Ok(o) if o == want => {}
                        o => rep.mismatch("C17:last-timestamp-fallback", json!({"stdin": ron_in, "expected": want, "observed": {"kind": o.tag(), "text": o.text()}})),
                    }
                }
            }
        }
    }
    rep.extra.insert("pipeline_runs".into(), json!(pipeline_runs));
    rep.print();
}

pub fn record(args: &[String]) {
    let seed: u64 = args[0].parse().unwrap();
    let n: usize = args[1].parse().unwrap();
    let mut out = std::io::BufWriter::new(std::fs::File::create(&args[2]).unwrap());
    let mut rng = StdRng::seed_from_u64(seed);
    let pats = ["YYYY", "YY", "MM", "0M", "DD", "0D", "HH", "0H", "mm", "0m", "SS", "0S", "WW", "0W", "compact_date", "compact_datetime"];
    let tz = std::env::var("TZ").unwrap_or_default();
    let mut insts: Vec<(u64, u64)> = (0..n).map(|_| (rng.gen_range(0..=84005u64), rng.gen_range(0..86400u64))).collect();
    insts.sort();
    for (day, sod) in insts {
        let p = pats[rng.gen_range(0..pats.len())];
        let ev = match resolve(p, day * 86400 + sod) {
            Ok(o) => json!({"k": "ts", "day": day, "sod": sod, "p": p, "ok": true, "out": to_cps(&o), "tz": tz}),
            Err(_) => json!({"k": "ts", "day": day, "sod": sod, "p": p, "ok": false, "out": [], "tz": tz}),
        };
        writeln!(out, "{ev}").unwrap();
    }
    // instants beyond the range the automaton walks (to 9999-12-31 and into five-digit years): the civil fields come with the
    // event and are validated by the closed form of Calendar.tla
    let far = n / 4;
    for i in 0..far {
        let (day, sod): (u64, u64) = match i % 6 {
            0 => (115_740, [63_999u64, 64_000][i / 6 % 2]),
            1 => ([2_932_896u64, 2_932_897][i / 6 % 2], [86_399u64, 0][i / 6 % 2]),      // 9999-12-31 23:59:59, 10000-01-01 00:00:00
            2 => (rng.gen_range(2_932_897..=3_000_000), rng.gen_range(0..86400)),       // five-digit years
            _ => (rng.gen_range(84_006..=2_932_896), rng.gen_range(0..86400)),
        };
        let p = pats[rng.gen_range(0..pats.len())];
        let ev = match resolve(p, day * 86400 + sod) {
            Ok(o) => json!({"k": "far", "day": day, "c": civil_json(day), "sod": sod, "p": p, "ok": true, "out": to_cps(&o), "tz": tz}),
            Err(_) => json!({"k": "far", "day": day, "c": civil_json(day), "sod": sod, "p": p, "ok": false, "out": [], "tz": tz}),
        };
        writeln!(out, "{ev}").unwrap();
    }
    out.flush().unwrap();
    println!("{}", json!({"module": "calendar", "events": n + far}));
}
