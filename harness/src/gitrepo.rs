//! C02: real git repositories built from GitRepo.tla operation sequences; `zerv version -C`
//! (in-process pipeline, which spawns the real git) observed under each input format and
//! work-tree kind and compared with the facts the specification derives from the DAG.
use std::io::Write;
use std::path::{Path, PathBuf};
use std::process::Command;
use std::str::FromStr;
use std::sync::atomic::{AtomicU64, Ordering};

use rand::rngs::StdRng;
use rand::{Rng, SeedableRng};
use serde_json::{Value, json};
use zerv::version::zerv::Zerv;

use crate::cli::{Outcome, argv, run_cli};
use crate::wire::*;

static COUNTER: AtomicU64 = AtomicU64::new(0);
const BASE_TIME: i64 = 1_600_000_000;

pub fn isolate_git_env() {
    // one process-wide setting, before any thread is started
    unsafe {
        std::env::set_var("GIT_CONFIG_GLOBAL", "/dev/null");
        std::env::set_var("GIT_CONFIG_NOSYSTEM", "1");
        std::env::set_var("GIT_AUTHOR_NAME", "zv");
        std::env::set_var("GIT_AUTHOR_EMAIL", "zv@example.invalid");
        std::env::set_var("GIT_COMMITTER_NAME", "zv");
        std::env::set_var("GIT_COMMITTER_EMAIL", "zv@example.invalid");
        std::env::set_var("GIT_TERMINAL_PROMPT", "0");
        std::env::remove_var("GIT_DIR");
        std::env::remove_var("GIT_WORK_TREE");
    }
}

pub struct Repo {
    pub dir: PathBuf,
    pub hashes: Vec<String>, // commit c -> hash at index c-1
    pub policy: u8,          // 0 increasing, 1 decreasing, 2 constant commit times, 3 counting up from the epoch (0, 1, 2, ...)
}

impl Drop for Repo {
    fn drop(&mut self) {
        let _ = std::fs::remove_dir_all(&self.dir);
    }
}

impl Repo {
    pub fn ctime(&self, c: usize) -> i64 {
        match self.policy {
            0 => BASE_TIME + 100 * c as i64,
            1 => BASE_TIME - 100 * c as i64,
            2 => BASE_TIME,
            // from the Unix epoch itself: the root commit has time 0, the next ones 1, 2, ...
            _ => c as i64 - 1,
        }
    }

    pub fn git(&self, args: &[&str], date: Option<i64>) -> Result<String, String> {
        let mut cmd = Command::new("git");
        cmd.args(args).current_dir(&self.dir);
        if let Some(d) = date {
            // the commit time is the COMMITTER date, in seconds since the epoch whatever the offset says;
            // the author date differs, so that reading the wrong one shows
            cmd.env("GIT_AUTHOR_DATE", format!("@{} +0530", d + 4321)).env("GIT_COMMITTER_DATE", format!("@{d} -0800"));
        }
        let out = cmd.output().map_err(|e| e.to_string())?;
        if out.status.success() {
            Ok(String::from_utf8_lossy(&out.stdout).trim().to_string())
        } else {
            Err(String::from_utf8_lossy(&out.stderr).trim().to_string())
        }
    }

    pub fn new(policy: u8) -> Repo {
        let n = COUNTER.fetch_add(1, Ordering::SeqCst);
        let dir = std::env::temp_dir().join(format!("zv-git-{}-{}", std::process::id(), n));
        let _ = std::fs::remove_dir_all(&dir);
        std::fs::create_dir_all(&dir).unwrap();
        let mut r = Repo { dir, hashes: vec![], policy };
        r.git(&["init", "-q", "-b", "main"], None).expect("git init");
        std::fs::write(r.dir.join("tracked.txt"), "tracked\n").unwrap();
        std::fs::write(r.dir.join(".gitignore"), "ignored.txt\n").unwrap();
        r.git(&["add", "tracked.txt", ".gitignore"], None).unwrap();
        let t = r.ctime(1);
        r.git(&["commit", "-q", "-m", "c1"], Some(t)).expect("root commit");
        r.record_head();
        r
    }

    fn record_head(&mut self) {
        let h = self.git(&["rev-parse", "HEAD"], None).unwrap();
        self.hashes.push(h);
    }

    fn head_hash(&self) -> String {
        self.git(&["rev-parse", "HEAD"], None).unwrap()
    }

    /// apply one model operation; Err = git refused (the caller decides what that means)
    pub fn apply(&mut self, op: &str, arg: &Value) -> Result<(), String> {
        let text = || if arg.is_string() { arg.as_str().unwrap().to_string() } else { cps(arg) };
        match op {
            "commit" => {
                let c = self.hashes.len() + 1;
                let t = self.ctime(c);
                self.git(&["commit", "--allow-empty", "-q", "-m", &format!("c{c}")], Some(t))?;
                self.record_head();
            }
            // by hash: with a tag of the same short name as the current branch `git branch <b>` is refused as ambiguous
            "branch" => { let h = self.head_hash(); self.git(&["branch", "--no-track", &text(), &h], None)?; }
            "checkout" => { self.git(&["switch", "-q", &text()], None)?; }
            "detach" => {
                let c = arg.as_u64().unwrap() as usize;
                let h = self.hashes[c - 1].clone();
                self.git(&["checkout", "-q", "--detach", &h], None)?;
            }
            // full ref names: a tag may carry the same short name as a branch
            "mergeff" => { self.git(&["merge", "-q", "--ff-only", &format!("refs/heads/{}", text())], None)?; }
            "merge" => {
                let c = self.hashes.len() + 1;
                let t = self.ctime(c);
                let before = self.head_hash();
                self.git(&["merge", "-q", "--no-ff", "-m", &format!("c{c}"), &format!("refs/heads/{}", text())], Some(t))?;
                if self.head_hash() == before {
                    return Err("merge made no commit".into());
                }
                self.record_head();
            }
            "tag" => { self.git(&["tag", &text()], None)?; }
            "atag" => { let t = text(); self.git(&["tag", "-a", &t, "-m", &t], Some(BASE_TIME + 777))?; }
            "deltag" => { self.git(&["tag", "-d", &text()], None)?; }
            "reset" => {
                let c = arg.as_u64().unwrap() as usize;
                let h = self.hashes[c - 1].clone();
                self.git(&["reset", "-q", "--hard", &h], None)?;
            }
            "amend" => {
                let c = self.hashes.len() + 1;
                let t = self.ctime(c);
                let before = self.head_hash();
                self.git(&["commit", "--amend", "--allow-empty", "-q", "-m", &format!("c{c}")], Some(t))?;
                if self.head_hash() == before {
                    return Err("amend made no new commit".into());
                }
                self.record_head();
            }
            "movetag" => { self.git(&["tag", "-f", &text()], None)?; }
            "moveatag" => { let t = text(); self.git(&["tag", "-f", "-a", &t, "-m", &t], Some(BASE_TIME + 778))?; }
            other => return Err(format!("unknown op {other}")),
        }
        Ok(())
    }

    /// make the work tree of the given kind, observe, restore
    pub fn touch(&self, kind: &str) {
        match kind {
            "modified" => std::fs::write(self.dir.join("tracked.txt"), "changed\n").unwrap(),
            "staged" => {
                std::fs::write(self.dir.join("staged.txt"), "s\n").unwrap();
                self.git(&["add", "staged.txt"], None).unwrap();
            }
            "untracked" => std::fs::write(self.dir.join("untracked.txt"), "u\n").unwrap(),
            "ignored" => std::fs::write(self.dir.join("ignored.txt"), "i\n").unwrap(),
            "deleted" => std::fs::remove_file(self.dir.join("tracked.txt")).unwrap(),
            "staged-deletion" => { self.git(&["rm", "-q", "tracked.txt"], None).unwrap(); }
            "untracked-nested" => {
                std::fs::create_dir_all(self.dir.join("new").join("deep")).unwrap();
                std::fs::write(self.dir.join("new").join("deep").join("u.txt"), "u\n").unwrap();
            }
            // git does not track directories: an empty one changes nothing
            "empty-dir" => std::fs::create_dir_all(self.dir.join("emptydir").join("x")).unwrap(),
            "staged-then-reverted" => {
                // index and work tree differ from each other but the work tree equals HEAD again: still a change to commit
                std::fs::write(self.dir.join("tracked.txt"), "changed\n").unwrap();
                self.git(&["add", "tracked.txt"], None).unwrap();
                std::fs::write(self.dir.join("tracked.txt"), "tracked\n").unwrap();
            }
            // only the executable bit of a tracked file differs: git reports it as modified
            "mode-changed" => {
                use std::os::unix::fs::PermissionsExt;
                std::fs::set_permissions(self.dir.join("tracked.txt"), std::fs::Permissions::from_mode(0o755)).unwrap();
            }
            // a file ignored through .git/info/exclude rather than .gitignore: still ignored
            "excluded-only" => {
                let common = self.git(&["rev-parse", "--git-common-dir"], None).unwrap();
                let info = self.dir.join(common).join("info");
                std::fs::create_dir_all(&info).unwrap();
                std::fs::write(info.join("exclude"), "excluded.txt\n").unwrap();
                std::fs::write(self.dir.join("excluded.txt"), "e\n").unwrap();
            }
            // the file's stat data no longer match the index but its content is unchanged: nothing is modified
            "touched" => {
                let f = std::fs::OpenOptions::new().write(true).open(self.dir.join("tracked.txt")).unwrap();
                f.set_modified(std::time::UNIX_EPOCH + std::time::Duration::from_secs(978_307_200)).unwrap();
            }
            "rewritten-same" => {
                let p = self.dir.join("tracked.txt");
                let content = std::fs::read(&p).unwrap();
                std::fs::remove_file(&p).unwrap();          // a new inode with the same bytes (edit, then undo)
                std::fs::write(&p, content).unwrap();
                let f = std::fs::OpenOptions::new().write(true).open(&p).unwrap();
                f.set_modified(std::time::UNIX_EPOCH + std::time::Duration::from_secs(1_234_567_890)).unwrap();
            }
            _ => {}
        }
    }

    pub fn restore(&self) {
        let _ = self.git(&["reset", "-q", "--hard"], None);
        let _ = self.git(&["clean", "-fdxq"], None);
    }

    /// commit number of a hash ("g" prefix already removed), 0 if unknown
    pub fn commit_of(&self, hash: &str) -> usize {
        self.hashes.iter().position(|h| h == hash).map(|i| i + 1).unwrap_or(0)
    }
}

fn now_s() -> i64 {
    std::time::SystemTime::now().duration_since(std::time::UNIX_EPOCH).unwrap().as_secs() as i64
}

/// one observation of `zerv version -C <repo>`, projected onto model names
pub fn observe(repo: &Repo, fmt: &str) -> Value {
    observe_at(repo, fmt, &repo.dir)
}

/// observe from a sub-directory of the main work tree: started there (`cwd`: the repository root is
/// found upwards) or addressed with -C (`dashc`: documented to look in that directory only)
pub fn observe_subdir(repo: &Repo, fmt: &str, dashc: bool) -> Value {
    let sub = repo.dir.join("sub").join("dir");
    std::fs::create_dir_all(&sub).unwrap();
    let o = if dashc { observe_at(repo, fmt, &sub) } else { observe_cwd(repo, fmt, &sub) };
    let _ = std::fs::remove_dir_all(repo.dir.join("sub"));
    o
}

/// observe from a linked work tree detached at commit c (`.git` is a file there)
pub fn observe_linked(repo: &Repo, fmt: &str, c: usize) -> Value {
    observe_linked_on(repo, fmt, c, None)
}

/// ... or on a branch of its own, created for the observation at commit c and deleted afterwards
pub fn observe_linked_on(repo: &Repo, fmt: &str, c: usize, branch: Option<&str>) -> Value {
    let wt = repo.dir.with_extension(format!("wt{c}"));
    let _ = std::fs::remove_dir_all(&wt);
    let h = repo.hashes[c - 1].clone();
    let p = wt.to_string_lossy().to_string();
    let added = match branch {
        None => repo.git(&["worktree", "add", "-q", "--detach", &p, &h], None),
        Some(b) => repo.git(&["worktree", "add", "-q", "-b", b, &p, &h], None),
    };
    if let Err(e) = added {
        return json!({"kind": "harness", "text": e});
    }
    let o = observe_at(repo, fmt, &wt);
    let _ = repo.git(&["worktree", "remove", "--force", &wt.to_string_lossy()], None);
    if let Some(b) = branch {
        let _ = repo.git(&["branch", "-D", "-q", b], None);
    }
    let _ = std::fs::remove_dir_all(&wt);
    let _ = repo.git(&["worktree", "prune"], None);
    o
}

pub fn observe_at(repo: &Repo, fmt: &str, dir: &Path) -> Value {
    let dir = dir.to_string_lossy().to_string();
    let t0 = now_s() - 1;
    let o = run_cli(&argv(&["version", "-C", &dir, "--source", "git", "--input-format", fmt, "--output-format", "zerv"]), None);
    let t1 = now_s() + 1;
    project_outcome(repo, o, t0, t1)
}

/// the real binary started with `dir` as its working directory and no -C: the repository root is
/// searched upwards without limit
pub fn observe_cwd(repo: &Repo, fmt: &str, dir: &Path) -> Value {
    let t0 = now_s() - 1;
    let args: Vec<String> = ["version", "--source", "git", "--input-format", fmt, "--output-format", "zerv"].iter().map(|s| s.to_string()).collect();
    let r = crate::proc::run_bin(&args, None, &[], &["RUST_LOG"], Some(dir));
    let t1 = now_s() + 1;
    let o = if r.signal != 0 || r.status == 101 || r.timed_out { Outcome::Panic(String::from_utf8_lossy(&r.stderr).to_string()) }
            else if r.status == 0 { Outcome::Ok(String::from_utf8_lossy(&r.stdout).trim_end().to_string()) }
            else { Outcome::Err(String::from_utf8_lossy(&r.stderr).to_string()) };
    project_outcome(repo, o, t0, t1)
}

fn project_outcome(repo: &Repo, o: Outcome, t0: i64, t1: i64) -> Value {
    match o {
        Outcome::Panic(m) => json!({"kind": "panic", "text": m}),
        Outcome::Err(e) => json!({"kind": "err", "notags": e.to_lowercase().contains("no version tags") || e.to_lowercase().contains("no tags"), "text": e}),
        Outcome::Ok(text) => match Zerv::from_str(&text) {
            Err(e) => json!({"kind": "unparsable", "text": e.to_string()}),
            Ok(z) => {
                let strip = |h: &Option<String>| h.as_ref().map(|s| s.strip_prefix('g').map(|x| x.to_string()).unwrap_or_else(|| format!("!{s}")));
                let head_hash = strip(&z.vars.bumped_commit_hash).unwrap_or_default();
                let tag_hash = strip(&z.vars.last_commit_hash).unwrap_or_default();
                let headc = repo.commit_of(&head_hash);
                let tagc = repo.commit_of(&tag_hash);
                let bts = z.vars.bumped_timestamp.map(|t| t as i64).unwrap_or(-1);
                let lts = z.vars.last_timestamp.map(|t| t as i64).unwrap_or(-1);
                json!({"kind": "ok",
                       "tag": to_cps(z.vars.last_tag_version.as_deref().unwrap_or("")),
                       "distance": z.vars.distance.map(|d| d as i64).unwrap_or(-1),
                       "dirty": z.vars.dirty.unwrap_or(false),
                       "branch": z.vars.bumped_branch.clone().unwrap_or_default(),
                       "headc": headc, "tagc": tagc,
                       // times: exact commit time, the wall clock (dirty re-stamp), or something else
                       "head_time": if headc > 0 && bts == repo.ctime(headc) { "commit" } else if bts >= t0 && bts <= t1 { "now" } else { "other" },
                       "tag_time_ok": tagc > 0 && lts == repo.ctime(tagc)})
            }
        },
    }
}

/// `zerv flow -C <repo> --post-mode commit` in the given output format (clean work tree)
fn flow_out(repo: &Repo, fmt: &str) -> Option<String> {
    let dir = repo.dir.to_string_lossy().to_string();
    match run_cli(&argv(&["flow", "-C", &dir, "--source", "git", "--post-mode", "commit", "--output-format", fmt]), None) {
        Outcome::Ok(s) => Some(s),
        _ => None,
    }
}

const KINDS: &[&str] = &["clean", "modified", "staged", "untracked", "ignored", "deleted", "staged-deletion", "untracked-nested", "empty-dir", "staged-then-reverted", "touched", "rewritten-same", "mode-changed", "excluded-only"];

fn expected_dirty(kind: &str) -> bool {
    matches!(kind, "modified" | "staged" | "untracked" | "deleted" | "staged-deletion" | "untracked-nested" | "staged-then-reverted" | "mode-changed")
}

/// judge one observation against the expected answers of the specification (Gen direction)
fn judge(rep: &mut Report, case: &Value, fmt: &str, kind: &str, obs: &Value, ops_text: &str) {
    rep.evaluations += 1;
    // kind "linked:<c>": a linked work tree detached at commit c
    let at: usize = kind.strip_prefix("linked:").map(|c| c.parse().unwrap()).unwrap_or(0);
    let exp = if at > 0 { arr(&case["expAt"][at - 1][fmt]) } else { arr(&case["exp"][fmt]) };
    let want_branch = if at > 0 { json!("") } else { case["branch"].clone() };
    let want_head = if at > 0 { json!(at) } else { case["headc"].clone() };
    if kind == "subdir-dashc" {
        // -C <dir> looks for the repository in <dir> only: a sub-directory is "not a git repository"
        if !(obs["kind"] == "err" && obs["text"].as_str().unwrap_or("").contains("Not in a git repository")) {
            rep.mismatch("X:dash-c-looks-in-that-directory-only", json!({"ops": ops_text, "format": fmt, "observed": obs}));
        }
        return;
    }
    let mismatch = |rep: &mut Report, key: &str, why: &str| {
        rep.mismatch(key, json!({"ops": ops_text, "format": fmt, "worktree": kind, "why": why,
                                  "expected_any_of": exp.iter().map(|e| json!({"tag": cps(&e["tag"]), "commit": e["c"], "distance": e["distance"]})).collect::<Vec<_>>(),
                                  "expected_branch": want_branch, "expected_head": want_head, "observed": obs}));
    };
    match obs["kind"].as_str().unwrap() {
        "harness" => mismatch(rep, "C02:model-git-disagree", "git refused to add a linked work tree"),
        "panic" => mismatch(rep, "C02:panic", "panic"),
        "unparsable" => mismatch(rep, "C02:unparsable-output", "unparsable"),
        "err" => {
            if !exp.is_empty() {
                mismatch(rep, "C02:refused-although-tagged", "zerv reports an error but a valid version tag is reachable");
            }
        }
        _ => {
            if exp.is_empty() {
                mismatch(rep, "C02:version-without-valid-tag", "no valid version tag is reachable from HEAD, yet a version is reported");
                return;
            }
            let tag = cps(&obs["tag"]);
            let hit = exp.iter().any(|e| cps(&e["tag"]) == tag && e["c"] == obs["tagc"] && e["distance"] == obs["distance"]);
            if !hit {
                mismatch(rep, "C02:base-tag-or-distance", "tag / tagged commit / distance is not an acceptable answer");
            } else if obs["dirty"].as_bool().unwrap() != expected_dirty(kind) {
                mismatch(rep, "C02:dirty", "dirty flag");
            } else if obs["branch"] != want_branch {
                mismatch(rep, "C02:branch", "branch name");
            } else if obs["headc"] != want_head {
                mismatch(rep, "C02:head-commit", "HEAD commit hash");
            } else if !obs["tag_time_ok"].as_bool().unwrap() {
                mismatch(rep, "C02:tag-time", "time of the tagged commit");
            } else {
                let want = if expected_dirty(kind) { "now" } else { "commit" };
                if obs["head_time"] != want {
                    mismatch(rep, "C02:head-time", "HEAD commit time (exact when clean, wall clock when dirty)");
                }
            }
        }
    }
}

fn ops_text(ops: &[Value]) -> String {
    ops.iter().map(|o| {
        let a = &o["arg"];
        let arg = if a.is_string() { a.as_str().unwrap().to_string() } else if a.is_u64() { a.to_string() } else { cps(a) };
        format!("{} {}", o["op"].as_str().unwrap(), arg).trim().to_string()
    }).collect::<Vec<_>>().join("; ")
}

pub fn replay(args: &[String]) {
    isolate_git_env();
    let stride: usize = args.get(1).and_then(|s| s.parse().ok()).unwrap_or(1);
    let istride: usize = args.get(2).and_then(|s| s.parse().ok()).unwrap_or(1);
    let all = tlc_lines(&args[0], "REPLAY");
    // keep every "interesting" state (merge, several tags on a commit, unreachable tag, detached) and
    // every stride-th of the rest
    let cases: Vec<Value> = all.into_iter().enumerate()
        .filter(|(i, c)| if c["interesting"].as_bool().unwrap() { i % istride == 0 } else { i % stride == 0 }).map(|(_, c)| c).collect();
    let results = par_map(&cases, |case| {
        let ops = arr(&case["ops"]);
        let text = ops_text(&ops);
        let policy = (text.len() % 4) as u8;
        let mut repo = Repo::new(policy);
        for o in &ops {
            if let Err(e) = repo.apply(o["op"].as_str().unwrap(), &o["arg"]) {
                return (text.clone(), vec![], Some(format!("git refused `{} {}`: {e}", o["op"], o["arg"])));
            }
        }
        let mut obs = vec![];
        for fmt in ["auto", "semver", "pep440"] {
            obs.push((fmt, "clean".to_string(), observe(&repo, fmt)));
        }
        // from a sub-directory, and from a linked work tree detached at one of the commits
        let f2 = ["auto", "semver", "pep440"][text.len() % 3];
        obs.push((f2, "subdir".to_string(), observe_subdir(&repo, f2, false)));
        obs.push((f2, "subdir-dashc".to_string(), observe_subdir(&repo, f2, true)));
        let c = 1 + (text.len() / 3) % repo.hashes.len();
        let f3 = ["auto", "semver", "pep440"][(text.len() / 2) % 3];
        obs.push((f3, format!("linked:{c}"), observe_linked(&repo, f3, c)));
        // the work-tree kinds under one format each
        // (the first four kinds for every repository, one of the others in turn)
        let extra = 5 + text.len() % (KINDS.len() - 5);
        for (i, kind) in KINDS.iter().enumerate().skip(1).filter(|(i, k)| *i < 5 || *i == extra || **k == "touched" || **k == "mode-changed") {
            let fmt = ["auto", "semver", "pep440"][(text.len() + i) % 3];
            repo.touch(kind);
            obs.push((fmt, kind.to_string(), observe(&repo, fmt)));
            repo.restore();
        }
        // refs packed into .git/packed-refs (what `git gc` and a clone leave behind): the same facts
        let _ = repo.git(&["pack-refs", "--all", "--prune"], None);
        obs.push((f2, "packed-refs".to_string(), observe(&repo, f2)));
        (text, obs, None)
    });
    let mut rep = Report::new("gitrepo");
    for (case, (text, obs, refused)) in cases.iter().zip(results) {
        if let Some(e) = refused {
            // the model allowed an operation that git refuses: the specification is wrong here
            rep.mismatch("C02:model-git-disagree", json!({"ops": text, "error": e}));
            continue;
        }
        if case["interesting"].as_bool().unwrap() {
            rep.nontrivial += 1;
        }
        if rep.samples.len() < 5 && case["interesting"].as_bool().unwrap() {
            rep.sample(json!({"ops": text, "expected_auto": arr(&case["exp"]["auto"]).iter().map(|e| json!({"tag": cps(&e["tag"]), "commit": e["c"], "distance": e["distance"]})).collect::<Vec<_>>()}));
        }
        for (fmt, kind, o) in &obs {
            judge(&mut rep, case, fmt, kind, o, &text);
        }
    }
    rep.extra.insert("repositories".into(), json!(cases.len()));
    rep.print();
}

// ------------------------------------------------------------------ sessions --
const TAGS: &[&str] = &["v1.0.0", "1.0.0a1", "latest", "v2.0.0-rc.1", "1.0.0", "v1.1.0", "2.0.0", "1.0.0rc1", "v0.9.0", "release-1", "1.1.0.post1", "v1.0.0+b", "main", "dev", "feature/x"];
const BRANCHES: &[&str] = &["dev", "feature/x", "release/1", "v1.0.0"];

/// a random session: every successful operation is logged, followed by one observation
pub fn record(args: &[String]) {
    isolate_git_env();
    let seed: u64 = args[0].parse().unwrap();
    let sessions: usize = args[1].parse().unwrap();
    let mut out = std::io::BufWriter::new(std::fs::File::create(&args[2]).unwrap());
    let seeds: Vec<u64> = (0..sessions as u64).map(|i| seed.wrapping_mul(1_000_003).wrapping_add(i)).collect();
    let first_seed = seeds.first().copied();
    let traces = par_map(&seeds, |s| {
        let mut rng = StdRng::seed_from_u64(*s);
        let mut repo = Repo::new(rng.gen_range(0..4));
        let mut events = vec![json!({"k": "reset"})];
        let mut branches: Vec<String> = vec!["main".into()];
        let mut tags: Vec<String> = vec![];
        // the first session of every recording starts with a scripted criss-cross: main merges feature/x, feature/x
        // merges an older state of main, main merges feature/x again - the last merge brings in nothing but a merge commit
        let mut script: std::collections::VecDeque<(&str, Value)> = if Some(*s) == first_seed {
            vec![("tag", to_cps("v1.0.0")), ("branch", json!("feature/x")), ("commit", json!([])), ("branch", json!("dev")), ("checkout", json!("feature/x")),
                 ("commit", json!([])), ("checkout", json!("main")), ("merge", json!("feature/x")), ("checkout", json!("feature/x")), ("merge", json!("dev")),
                 ("checkout", json!("main")), ("merge", json!("feature/x"))].into()
        } else { Default::default() };
        let steps = rng.gen_range(8..26) + script.len();
        for _ in 0..steps {
            let n = repo.hashes.len();
            let scripted = script.pop_front();
            let (op, arg): (&str, Value) = if let Some(x) = scripted { x } else { match rng.gen_range(0..15) {
                0..=2 if n < 12 => ("commit", json!([])),
                3 => { let b = BRANCHES[rng.gen_range(0..BRANCHES.len())]; if branches.iter().any(|x| x == b) { continue } ("branch", json!(b)) }
                4 => ("checkout", json!(branches[rng.gen_range(0..branches.len())])),
                5 => ("detach", json!(rng.gen_range(1..=n))),
                6 => ("mergeff", json!(branches[rng.gen_range(0..branches.len())])),
                7 if n < 12 => ("merge", json!(branches[rng.gen_range(0..branches.len())])),
                8 | 9 => { let t = TAGS[rng.gen_range(0..TAGS.len())]; if tags.iter().any(|x| x == t) { continue } (if rng.gen_bool(0.5) { "tag" } else { "atag" }, to_cps(t)) }
                10 if !tags.is_empty() => ("deltag", to_cps(&tags[rng.gen_range(0..tags.len())])),
                11 => continue,
                12 if n > 1 => ("reset", json!(rng.gen_range(1..=n))),
                13 if n < 12 => ("amend", json!([])),
                14 if !tags.is_empty() => (if rng.gen_bool(0.5) { "movetag" } else { "moveatag" }, to_cps(&tags[rng.gen_range(0..tags.len())])),
                _ => continue,
            } };
            // "merge" must make a commit, "mergeff" must move HEAD: otherwise git did nothing
            let before = (repo.hashes.len(), repo.git(&["rev-parse", "HEAD"], None).unwrap_or_default());
            let flow_before = if op == "commit" || op == "merge" { (flow_out(&repo, "semver"), flow_out(&repo, "pep440"), observe(&repo, "auto")) } else { (None, None, json!({})) };
            if repo.apply(op, &arg).is_err() {
                continue;
            }
            let after = repo.git(&["rev-parse", "HEAD"], None).unwrap_or_default();
            if (op == "mergeff" || op == "reset") && after == before.1 {
                continue; // already up to date / reset to the current commit: nothing happened
            }
            match op {
                "branch" => branches.push(arg.as_str().unwrap().to_string()),
                "tag" | "atag" => tags.push(cps(&arg)),
                "deltag" => { let t = cps(&arg); tags.retain(|x| *x != t); }
                _ => {}
            }
            events.push(json!({"k": "op", "op": op, "arg": arg}));
            // a commit, or a merge commit (no fast-forward), is one more commit on the branch's first-parent chain
            if op == "commit" || op == "merge" {
                let after = (flow_out(&repo, "semver"), flow_out(&repo, "pep440"), observe(&repo, "auto"));
                if let (Some(s0), Some(p0), Some(s1), Some(p1)) = (&flow_before.0, &flow_before.1, &after.0, &after.1) {
                    // same base tag before and after (a commit cannot change it) and a branch checked out
                    if flow_before.2["kind"] == "ok" && after.2["kind"] == "ok" && flow_before.2["tag"] == after.2["tag"] && after.2["branch"] != "" {
                        events.push(json!({"k": "flowpair", "tag": after.2["tag"], "branch": after.2["branch"],
                                           "sv0": to_cps(s0), "sv1": to_cps(s1), "pep0": to_cps(p0), "pep1": to_cps(p1)}));
                    }
                }
            }
            // C03 on real repositories: a clean checkout exactly at a final-release tag yields exactly that release
            if rng.gen_bool(0.4) {
                if let (Some(sv), Some(pep)) = (flow_out(&repo, "semver"), flow_out(&repo, "pep440")) {
                    events.push(json!({"k": "flowclean", "sv": to_cps(&sv), "pep": to_cps(&pep)}));
                }
            }
            // the default output of `zerv version` / `zerv flow` from the git source (C01)
            {
                let dir = repo.dir.to_string_lossy().to_string();
                let of = ["semver", "pep440"][rng.gen_range(0..2)];
                let cmd = ["version", "flow"][rng.gen_range(0..2)];
                if let Outcome::Ok(text) = run_cli(&argv(&[cmd, "-C", &dir, "--output-format", of]), None) {
                    events.push(json!({"k": "gitout", "cmd": cmd, "fmt": of, "text": to_cps(&text)}));
                }
            }
            let fmt = ["auto", "semver", "pep440"][rng.gen_range(0..3)];
            match rng.gen_range(0..8) {
                0 => events.push(json!({"k": "observe", "fmt": fmt, "wt": "clean", "at": 0, "where": "subdir", "obs": observe_subdir(&repo, fmt, false)})),
                1 => {
                    let c = rng.gen_range(1..=repo.hashes.len());
                    let wb = if rng.gen_bool(0.5) { Some("wt/own-branch") } else { None };
                    let o = observe_linked_on(&repo, fmt, c, wb);
                    if o["kind"] != "harness" {
                        events.push(json!({"k": "observe", "fmt": fmt, "wt": "clean", "at": c, "wbranch": wb.unwrap_or(""), "where": "linked", "obs": o}));
                    }
                }
                _ => {
                    let kind = KINDS[[0, 0, 0, 0, 1, 2, 3, 4, 5, 6, 7, 8, 9, 10, 11, 12, 13][rng.gen_range(0..17)]];
                    repo.touch(kind);
                    let o = observe(&repo, fmt);
                    repo.restore();
                    events.push(json!({"k": "observe", "fmt": fmt, "wt": kind, "at": 0, "where": "root", "obs": o}));
                }
            }
        }
        events
    });
    let mut n = 0;
    for t in traces {
        for e in t {
            writeln!(out, "{e}").unwrap();
            n += 1;
        }
    }
    out.flush().unwrap();
    println!("{}", json!({"module": "gitrepo", "events": n, "sessions": sessions}));
}

#[allow(dead_code)]
fn unused(_: &Path) {}
