//! C03 / C04: `zerv flow` against Flow.tla.  Every run is observed three times (zerv, semver,
//! pep440 output) plus, in commit mode, once more with one extra commit (monotonicity).
use std::io::Write;
use std::str::FromStr;

use rand::rngs::StdRng;
use rand::{Rng, SeedableRng};
use serde_json::{Value, json};
use zerv::version::zerv::Zerv;

use crate::cli::{Outcome, argv, run_cli};
use crate::wire::*;
use crate::zmodel::{ron_str, tag_text};

const NONE: i64 = -1;
const NOW: i64 = -2;
const HASH: i64 = -3;

fn rules_ron(rules: &Value) -> String {
    let items: Vec<String> = arr(rules).iter().map(|r| {
        let num = r["num"].as_i64().unwrap();
        format!("(pattern:{},pre_release_label:{},{}post_mode:{})", ron_str(&cps(&r["pattern"])), r["label"].as_str().unwrap(),
                if num == NONE { String::new() } else if num % 2 == 0 { format!("pre_release_num:Some({num}),") } else { format!("pre_release_num:{num},") },
                r["mode"].as_str().unwrap())
    }).collect();
    format!("[{}]", items.join(","))
}

pub fn flow_argv(f: &Value, distance_plus: i64, fmt: &str) -> Vec<String> {
    let mut a = argv(&["flow", "--source", "none", "--tag-version"]);
    a.push(tag_text(&f["tag"], false));
    let g = |k: &str| f[k].as_i64().unwrap();
    if g("post") != NONE {
        a.extend(argv(&["--post", &g("post").to_string()]));
    }
    if g("distance") != NONE {
        a.extend(argv(&["--distance", &(g("distance") + distance_plus).to_string()]));
    }
    for (k, flag) in [("dirty", "--dirty"), ("nodirty", "--no-dirty"), ("clean", "--clean")] {
        if f[k].as_bool().unwrap() {
            a.push(flag.to_string());
        }
    }
    if f["hasBranch"].as_bool().unwrap() {
        a.extend(argv(&["--bumped-branch", &cps(&f["branch"])]));
    }
    if !f["label"].as_str().unwrap().is_empty() {
        a.extend(argv(&["--pre-release-label", f["label"].as_str().unwrap()]));
    }
    if g("num") != NONE {
        a.extend(argv(&["--pre-release-num", &g("num").to_string()]));
    }
    if !f["mode"].as_str().unwrap().is_empty() {
        a.extend(argv(&["--post-mode", f["mode"].as_str().unwrap()]));
    }
    if g("hlen") != 5 || g("rsid") % 2 == 0 {
        a.extend(argv(&["--hash-branch-len", &g("hlen").to_string()]));
    }
    if g("rsid") != 1 {
        a.extend(argv(&["--branch-rules", &rules_ron(&f["rules"])]));
    }
    let sfx = f["suffix"].as_str().unwrap();
    if !sfx.is_empty() || g("rsid") % 2 == 1 {
        a.extend(argv(&["--schema", &format!("standard{sfx}")]));
    }
    a.extend(argv(&["--output-format", fmt]));
    a
}

/// the branch hash as the template function reports it (opaque value; contract checked here)
pub fn branch_hash(f: &Value) -> Result<String, String> {
    let len = f["hlen"].as_i64().unwrap().clamp(1, 10);
    let mut a = argv(&["version", "--source", "none", "--tag-version", "1.0.0"]);
    if f["hasBranch"].as_bool().unwrap() {
        a.extend(argv(&["--bumped-branch", &cps(&f["branch"])]));
    }
    a.extend(argv(&["--output-template", &format!("{{{{ hash_int(value=bumped_branch, length={len}) }}}}")]));
    match run_cli(&a, None) {
        // the pre-release number is a u32: a hash that does not fit loses its last digit
        Outcome::Ok(s) if s.parse::<u64>().is_ok_and(|n| n > u32::MAX as u64) => Ok(s[..s.len() - 1].to_string()),
        Outcome::Ok(s) => Ok(s),
        o => Err(format!("{}: {}", o.tag(), o.text())),
    }
}

pub struct Obs {
    pub pre_is_hash: bool,
    pub out: Value,
    pub semver: Value,
    pub pep440: Value,
    pub nsemver: Value,
    pub npep440: Value,
    pub hash: String,
    pub hash_ok: bool,
    pub argv: Vec<String>,
    pub panicked: bool,
}

fn now_s() -> i64 {
    std::time::SystemTime::now().duration_since(std::time::UNIX_EPOCH).unwrap().as_secs() as i64
}

fn text_res(o: &Outcome) -> Value {
    match o {
        Outcome::Ok(s) => json!({"ok": true, "s": to_cps(s)}),
        _ => json!({"ok": false, "s": []}),
    }
}

pub fn observe(f: &Value) -> Obs {
    let hash = branch_hash(f).unwrap_or_default();
    let len = f["hlen"].as_i64().unwrap().clamp(1, 10) as usize;
    let hash_ok = !hash.is_empty() && hash.len() <= len && hash.bytes().all(|b| b.is_ascii_digit()) && !hash.starts_with('0')
        && branch_hash(f).ok().as_deref() == Some(hash.as_str());
    let a = flow_argv(f, 0, "zerv");
    let t0 = now_s() - 1;
    let o = run_cli(&a, None);
    let t1 = now_s() + 1;
    let mut panicked = matches!(o, Outcome::Panic(_));
    let mut pre_is_hash = false;
    let out = match &o {
        Outcome::Ok(text) => match Zerv::from_str(text) {
            Ok(z) => {
                let o64 = |x: Option<u64>| x.map(|n| n as i64).unwrap_or(NONE);
                let pre = match &z.vars.pre_release {
                    None => json!({"l": "none", "n": NONE}),
                    Some(p) => {
                        pre_is_hash = p.number.map(|n| n.to_string() == hash).unwrap_or(false);
                        let n = match p.number {
                            None => NONE,
                            Some(n) => n.min(i32::MAX as u64) as i64,
                        };
                        json!({"l": p.label.label_str(), "n": n})
                    }
                };
                let dev = match z.vars.dev {
                    None => NONE,
                    Some(d) if (d as i64) >= t0 && (d as i64) <= t1 => NOW,
                    Some(d) => d.min(i32::MAX as u64) as i64,
                };
                json!({"kind": "ok",
                       "v": {"epoch": o64(z.vars.epoch), "major": o64(z.vars.major), "minor": o64(z.vars.minor), "patch": o64(z.vars.patch),
                             "pre": pre, "post": o64(z.vars.post), "dev": dev},
                       "cx": {"distance": o64(z.vars.distance), "dirty": match z.vars.dirty { Some(true) => 1, Some(false) => 0, None => NONE }}})
            }
            Err(_) => json!({"kind": "unparsable", "v": 0, "cx": 0}),
        },
        Outcome::Err(_) => json!({"kind": "err", "v": 0, "cx": 0}),
        Outcome::Panic(_) => json!({"kind": "panic", "v": 0, "cx": 0}),
    };
    let sv = run_cli(&flow_argv(f, 0, "semver"), None);
    let pep = run_cli(&flow_argv(f, 0, "pep440"), None);
    let (nsv, npep) = if f["distance"].as_i64().unwrap() != NONE {
        (run_cli(&flow_argv(f, 1, "semver"), None), run_cli(&flow_argv(f, 1, "pep440"), None))
    } else {
        (Outcome::Err(String::new()), Outcome::Err(String::new()))
    };
    for o in [&sv, &pep, &nsv, &npep] {
        panicked |= matches!(o, Outcome::Panic(_));
    }
    Obs { pre_is_hash, out, semver: text_res(&sv), pep440: text_res(&pep), nsemver: text_res(&nsv), npep440: text_res(&npep),
          hash, hash_ok, argv: a, panicked }
}

fn event(f: &Value, o: &Obs) -> Value {
    json!({"k": "flow", "f": f, "argv": o.argv, "out": o.out, "semver": o.semver, "pep440": o.pep440,
           "nsemver": o.nsemver, "npep440": o.npep440, "hash": o.hash, "hash_ok": o.hash_ok, "pre_is_hash": o.pre_is_hash, "panic": o.panicked})
}

fn key_for(f: &Value, o: &Obs) -> String {
    if o.panicked {
        "C04:panic".into()
    } else if f["hlen"].as_i64().unwrap() == 10 && o.hash.len() == 10 && o.hash.parse::<u32>().is_err() {
        "C04:hash-len-10-exceeds-u32".into()
    } else {
        "C04:flow-components".into()
    }
}

/// Gen direction: expected component values come from TLC; the observations are also written as a
/// trace so that the C03 inequalities are judged on the observed strings by Trace_Flow.
pub fn replay(args: &[String]) {
    let mut rep = Report::new("flow");
    let mut out = std::io::BufWriter::new(std::fs::File::create(&args[1]).unwrap());
    // every behaviour is replayed; the observation trace (judged again by Trace_Flow) keeps every
    // `keep`-th one when the bound is very large
    let keep: u64 = args.get(2).map(|s| s.parse().unwrap()).unwrap_or(1);
    crate::wire::tlc_lines_chunked(&args[0], "REPLAY", 50_000, |cases| {
    let observations = par_map(&cases, |case| observe(&case["f"]));
    for (case, o) in cases.iter().zip(observations) {
        let f = &case["f"];
        let want_err = case["err"].as_bool().unwrap();
        rep.evaluations += 1;
        let active = case["v"] != f["tag"];
        if active && !want_err {
            rep.nontrivial += 1;
        }
        if rep.evaluations % 3001 == 1 {
            rep.sample(json!({"argv": o.argv, "expected": if want_err { json!("error") } else { case["v"].clone() }}));
        }
        if rep.evaluations % keep == 0 {
            writeln!(out, "{}", event(f, &o)).unwrap();
        }
        let kind = o.out["kind"].as_str().unwrap();
        let good = if want_err { kind == "err" } else {
            let mut want_v = case["v"].clone();
            let mut got_v = o.out["v"].clone();
            let hash_expected = want_v["pre"]["n"] == json!(HASH);
            if hash_expected {
                want_v["pre"]["n"] = json!(0);
                got_v["pre"]["n"] = json!(0);
            }
            kind == "ok" && got_v == want_v && (!hash_expected || o.pre_is_hash) && o.out["cx"] == case["cx"] && o.hash_ok
        };
        if !good {
            rep.mismatch(&key_for(f, &o), json!({"argv": o.argv, "expected": if want_err { json!("error, no output") } else { json!({"v": case["v"], "cx": case["cx"]}) },
                                                  "observed": o.out, "hash": o.hash, "hash_contract_ok": o.hash_ok}));
        }
    }
    });
    out.flush().unwrap();
    rep.print();
}

// ------------------------------------------------------------------ recorder --
const BRANCHES: &[&str] = &["main", "develop", "develop/x", "release/1", "release/1/x", "release/x", "release-1", "releases", "release/",
    "release", "feature/7/y", "feature/x/08", "9/x", "hotfix/2.1", "feature/Ünï-çødé", "日本/7", "a", "release/000123", "release/999999999",
    "feature/this-is-a-very-long-branch-name-with-many-many-segments/and/more/of/them/0/1/2/3/4/5/6/7/8/9/x", "dev elop", "release/v2",
    // segments that a lenient number parser would take for numbers, and all-digit segments that do not fit u32
    "release/+5", "feature/+12/ui", "hotfix/+4", "release/-3/4", "release/1e3/8", "release/\u{663}/6", "release/99999999999/2",
    "release/4294967296/1", "release/00000000000000000001", "feature/x/+0", "release/1_0/3"];
const PATTERNS: &[(&str, bool)] = &[("develop", false), ("release/*", true), ("feature/*", true), ("*", true), ("main", false),
    ("release/1/*", true), ("release", false), ("release/1", false), ("hotfix/*", true), ("日本/*", true), ("release-1", false)];

fn num(rng: &mut StdRng) -> i64 {
    match rng.gen_range(0..10) { 0..=6 => rng.gen_range(0..6), 7..=8 => rng.gen_range(0..5000), _ => rng.gen_range(0..(1i64 << 29)) }
}

pub fn random_input(rng: &mut StdRng) -> Value {
    let final_tag = rng.gen_bool(0.65);
    let label = if final_tag { "none" } else { ["alpha", "beta", "rc"][rng.gen_range(0..3)] };
    let tag = json!({"epoch": if rng.gen_bool(0.12) { rng.gen_range(1..4) } else { NONE }, "major": num(rng), "minor": num(rng), "patch": num(rng),
        "pre": {"l": label, "n": if final_tag { NONE } else { num(rng) }},
        "post": if !final_tag && rng.gen_bool(0.6) { num(rng) } else { NONE }, "dev": NONE});
    let nrules = rng.gen_range(1..5);
    let custom_rules = rng.gen_bool(0.5);
    let rules: Vec<Value> = if custom_rules {
        (0..nrules).map(|_| {
            let (p, wild) = PATTERNS[rng.gen_range(0..PATTERNS.len())];
            let rl = ["alpha", "beta", "rc"][rng.gen_range(0..3)];
            let rm = ["commit", "commit", "tag"][rng.gen_range(0..3)];
            json!({"pattern": to_cps(p), "label": rl, "num": if wild { NONE } else { rng.gen_range(0..50) }, "mode": rm})
        }).collect()
    } else {
        vec![json!({"pattern": to_cps("develop"), "label": "beta", "num": 1, "mode": "commit"}),
             json!({"pattern": to_cps("release/*"), "label": "rc", "num": NONE, "mode": "tag"}),
             json!({"pattern": to_cps("*"), "label": "alpha", "num": NONE, "mode": "commit"})]
    };
    let has_branch = rng.gen_bool(0.93);
    let branch = BRANCHES[rng.gen_range(0..BRANCHES.len())];
    let dc = [(false, false, false), (false, false, false), (true, false, false), (false, true, false), (false, false, true)][rng.gen_range(0..5)];
    let sfx = ["", "-no-context", "-context", "-base", "-base-prerelease", "-base-prerelease-post", "-base-prerelease-post-dev",
               "-base-context", "-base-prerelease-context", "-base-prerelease-post-context", "-base-prerelease-post-dev-context"];
    let hl = [5, 5, 1, 2, 3, 4, 6, 7, 8, 9, 10, 10, 0, 11];
    let dist = [NONE, 0, 1, 2, 3, 17];
    let dchoice = rng.gen_range(0..7);
    let xl = if rng.gen_bool(0.2) { ["alpha", "beta", "rc"][rng.gen_range(0..3)] } else { "" };
    let xm = ["", "", "", "tag", "commit"][rng.gen_range(0..5)];
    let xh = hl[rng.gen_range(0..hl.len())];
    let xs = sfx[rng.gen_range(0..sfx.len())];
    json!({"tag": tag, "post": if rng.gen_bool(0.2) { num(rng) } else { NONE },
           "distance": if dc.2 { NONE } else if dchoice < 6 { dist[dchoice] } else { num(rng) },
           "dirty": dc.0, "nodirty": dc.1, "clean": dc.2, "hasBranch": has_branch, "branch": to_cps(if has_branch { branch } else { "" }),
           "label": xl, "num": if rng.gen_bool(0.2) { num(rng) } else { NONE }, "mode": xm,
           "hlen": xh, "rules": rules, "rsid": if custom_rules { 2 } else { 1 }, "suffix": xs, "filled": true})
}

pub fn record(args: &[String]) {
    let seed: u64 = args[0].parse().unwrap();
    let n: usize = args[1].parse().unwrap();
    let mut out = std::io::BufWriter::new(std::fs::File::create(&args[2]).unwrap());
    let mut rng = StdRng::seed_from_u64(seed);
    let inputs: Vec<Value> = (0..n).map(|_| random_input(&mut rng)).collect();
    let observations = par_map(&inputs, observe);
    for (f, o) in inputs.iter().zip(observations) {
        writeln!(out, "{}", event(f, &o)).unwrap();
    }
    out.flush().unwrap();
    println!("{}", json!({"module": "flow", "events": n}));
}
