//! C13 / C14: the real zerv binary as a process - exit status, signal, stdout, stderr - under
//! git fault plans, adversarial argument classes and varied environments.
use std::io::{Read, Write};
use std::os::unix::process::ExitStatusExt;
use std::path::PathBuf;
use std::process::{Command, Stdio};
use std::time::{Duration, Instant};

use clap::CommandFactory;
use rand::rngs::StdRng;
use rand::{Rng, SeedableRng};
use serde_json::{Value, json};

use crate::gitrepo::Repo;
use crate::wire::*;

pub fn zerv_bin() -> PathBuf {
    let me = std::env::current_exe().unwrap();
    me.parent().unwrap().join("zerv")
}

pub fn shim_bin() -> PathBuf {
    std::env::current_exe().unwrap().parent().unwrap().join("zv-git-shim")
}

pub struct RunObs {
    pub status: i32,
    pub signal: i32,
    pub stdout: Vec<u8>,
    pub stderr: Vec<u8>,
    pub timed_out: bool,
}

/// A run that exceeds 20 s is repeated once with a limit of 180 s before it is reported as not
/// terminating: on a loaded machine a process that forks git a dozen times can be starved.
pub fn run_bin(args: &[String], stdin: Option<&[u8]>, env: &[(String, String)], env_remove: &[&str], cwd: Option<&std::path::Path>) -> RunObs {
    let r = run_bin_once(args, stdin, env, env_remove, cwd, 20);
    if r.timed_out { run_bin_once(args, stdin, env, env_remove, cwd, 180) } else { r }
}

fn run_bin_once(args: &[String], stdin: Option<&[u8]>, env: &[(String, String)], env_remove: &[&str], cwd: Option<&std::path::Path>, limit_s: u64) -> RunObs {
    let mut cmd = Command::new(zerv_bin());
    cmd.args(args).stdout(Stdio::piped()).stderr(Stdio::piped());
    cmd.stdin(if stdin.is_some() { Stdio::piped() } else { Stdio::null() });
    for (k, v) in env {
        cmd.env(k, v);
    }
    for k in env_remove {
        cmd.env_remove(k);
    }
    if let Some(d) = cwd {
        cmd.current_dir(d);
    }
    let mut child = cmd.spawn().expect("spawn zerv");
    if let Some(data) = stdin {
        let mut si = child.stdin.take().unwrap();
        let data = data.to_vec();
        std::thread::spawn(move || {
            let _ = si.write_all(&data);
        });
    }
    let mut so = child.stdout.take().unwrap();
    let mut se = child.stderr.take().unwrap();
    let t_out = std::thread::spawn(move || { let mut b = vec![]; let _ = so.read_to_end(&mut b); b });
    let t_err = std::thread::spawn(move || { let mut b = vec![]; let _ = se.read_to_end(&mut b); b });
    let start = Instant::now();
    let mut timed_out = false;
    let status = loop {
        match child.try_wait().unwrap() {
            Some(s) => break s,
            None => {
                if start.elapsed() > Duration::from_secs(limit_s) {
                    let _ = child.kill();
                    timed_out = true;
                    break child.wait().unwrap();
                }
                std::thread::sleep(Duration::from_millis(2));
            }
        }
    };
    RunObs { status: status.code().unwrap_or(-1), signal: status.signal().unwrap_or(0), stdout: t_out.join().unwrap(), stderr: t_err.join().unwrap(), timed_out }
}

/// replace decimal numbers that are the wall clock of "just now" (the documented dev timestamp of
/// dirty / ahead states) by a marker
fn mask_now(bytes: &[u8]) -> String {
    let now = std::time::SystemTime::now().duration_since(std::time::UNIX_EPOCH).unwrap().as_secs();
    let text = String::from_utf8_lossy(bytes).to_string();
    let mut out = String::new();
    let mut digits = String::new();
    let flush = |digits: &mut String, out: &mut String| {
        if !digits.is_empty() {
            match digits.parse::<u64>() {
                Ok(n) if n.saturating_add(600) >= now && n <= now + 30 => out.push_str("<NOW>"),
                _ => out.push_str(digits),
            }
            digits.clear();
        }
    };
    for c in text.chars() {
        if c.is_ascii_digit() { digits.push(c) } else { flush(&mut digits, &mut out); out.push(c) }
    }
    flush(&mut digits, &mut out);
    out
}

fn requested_format(args: &[String]) -> &'static str {
    let sub = args.iter().find(|a| !a.starts_with('-')).map(|s| s.as_str()).unwrap_or("");
    if args.iter().any(|a| a == "--help" || a == "-h" || a == "--version" || a == "-V" || a == "--llm-help") || sub == "check" {
        return "other";
    }
    if args.iter().any(|a| a.starts_with("--output-template") || a == "--template") {
        return "template";
    }
    let mut fmt = "semver";
    for (i, a) in args.iter().enumerate() {
        let v = if a == "--output-format" { args.get(i + 1).cloned() } else { a.strip_prefix("--output-format=").map(|s| s.to_string()) };
        if let Some(v) = v {
            fmt = match v.as_str() { "pep440" => "pep440", "zerv" => "zerv", "semver" => "semver", _ => "other" };
        }
    }
    if args.iter().any(|a| a.starts_with("--output-prefix")) && fmt != "zerv" {
        return "other"; // a prefix makes the line a non-version on purpose
    }
    fmt
}

pub fn observation(args: &[String], r: &RunObs, verbose: bool, quiet_same: bool) -> Value {
    let out_text = String::from_utf8_lossy(&r.stdout).to_string();
    let err_text = String::from_utf8_lossy(&r.stderr).to_string();
    let diag = ["Error:", "panicked at", " DEBUG ", " INFO ", " WARN ", " ERROR ", " TRACE "].iter().any(|m| out_text.contains(m));
    let capped: String = out_text.chars().take(2000).collect();
    let too_long = out_text.chars().count() > 2000;
    let outlen = if too_long { out_text.chars().count() } else { capped.chars().count() };
    json!({"status": r.status, "signal": if r.timed_out { 99 } else { r.signal }, "out": to_cps(&capped), "outlen": outlen, "errlen": r.stderr.len(),
           "panicked": err_text.contains("panicked at") || r.status == 101, "diag": diag, "fmt": if too_long { "other" } else { requested_format(args) },
           "verbose": verbose, "quiet_same": quiet_same})
}

fn panic_site(stderr: &[u8]) -> String {
    let t = String::from_utf8_lossy(stderr);
    t.find("panicked at ").map(|i| {
        let rest = &t[i + 12..];
        let loc = rest.split(|c: char| c == ':' || c == '\n').next().unwrap_or("?");
        loc.trim_start_matches("/repo/").to_string()
    }).unwrap_or_default()
}

// ------------------------------------------------------------------ scenarios --
pub struct Scenario {
    pub name: &'static str,
    pub repo: Repo,
    pub cmd: &'static str,
}

fn build_scenarios() -> Vec<Scenario> {
    let mut v = vec![];
    for cmd in ["version", "flow"] {
        let mut a = Repo::new(0);
        a.apply("tag", &to_cps("v1.0.0")).unwrap();
        v.push(Scenario { name: "tag-at-head", repo: a, cmd });
        let mut b = Repo::new(0);
        b.apply("atag", &to_cps("v1.2.3")).unwrap();
        b.apply("branch", &json!("feature/x")).unwrap();
        b.apply("checkout", &json!("feature/x")).unwrap();
        b.apply("commit", &json!([])).unwrap();
        b.apply("commit", &json!([])).unwrap();
        v.push(Scenario { name: "tag-behind", repo: b, cmd });
        let mut c = Repo::new(0);
        c.apply("commit", &json!([])).unwrap();
        v.push(Scenario { name: "no-tag", repo: c, cmd });
        let mut d = Repo::new(0);
        d.apply("tag", &to_cps("1.0.0rc1")).unwrap();
        d.apply("commit", &json!([])).unwrap();
        d.apply("detach", &json!(1)).unwrap();
        d.touch("modified");
        v.push(Scenario { name: "detached-dirty", repo: d, cmd });
    }
    v
}

fn shim_env(state: &std::path::Path) -> Vec<(String, String)> {
    let shim_dir = state.join("bin");
    std::fs::create_dir_all(&shim_dir).unwrap();
    let link = shim_dir.join("git");
    let _ = std::fs::remove_file(&link);
    std::os::unix::fs::symlink(shim_bin(), &link).unwrap();
    let real = which_git();
    let path = format!("{}:{}", shim_dir.display(), std::env::var("PATH").unwrap_or_default());
    vec![("PATH".into(), path), ("ZV_SHIM_DIR".into(), state.display().to_string()), ("ZV_REAL_GIT".into(), real)]
}

fn which_git() -> String {
    for d in std::env::var("PATH").unwrap_or_default().split(':') {
        let p = std::path::Path::new(d).join("git");
        if p.is_file() {
            return p.display().to_string();
        }
    }
    "/usr/bin/git".into()
}

fn run_with_plan(sc: &Scenario, plan: &str, idx: usize) -> (Vec<String>, RunObs, u32, String) {
    let state = std::env::temp_dir().join(format!("zv-shim-{}-{}", std::process::id(), idx));
    let _ = std::fs::remove_dir_all(&state);
    std::fs::create_dir_all(&state).unwrap();
    std::fs::write(state.join("plan"), plan).unwrap();
    let env = shim_env(&state);
    let args: Vec<String> = vec![sc.cmd.to_string(), "-C".into(), sc.repo.dir.display().to_string()];
    let r = run_bin(&args, None, &env, &[], None);
    let k = std::fs::read_to_string(state.join("count")).ok().and_then(|s| s.trim().parse().ok()).unwrap_or(0);
    let log = std::fs::read_to_string(state.join("log")).unwrap_or_default();
    let _ = std::fs::remove_dir_all(&state);
    (args, r, k, log)
}

/// option table of the four sub-commands, from the clap definitions of the current build
pub fn flag_table() -> Vec<(String, Vec<(String, bool)>)> {
    let cmd = zerv::cli::Cli::command();
    let mut res = vec![];
    for name in ["version", "flow", "render", "check"] {
        let sub = cmd.find_subcommand(name).expect("sub-command");
        let mut flags: Vec<(String, bool)> = sub.get_arguments().filter_map(|a| a.get_long().map(|l| (format!("--{l}"), a.get_action().takes_values()))).collect();
        flags.sort();
        flags.dedup();
        res.push((name.to_string(), flags));
    }
    res
}

pub fn measure(args: &[String]) {
    crate::gitrepo::isolate_git_env();
    let scs = build_scenarios();
    let ks: Vec<u32> = scs.iter().enumerate().map(|(i, sc)| run_with_plan(sc, "", 9000 + i).2).collect();
    let nflags: Vec<usize> = flag_table().iter().map(|(_, f)| f.len()).collect();
    let v = json!({"ks": ks, "nflags": nflags, "scenarios": scs.iter().map(|s| format!("{} {}", s.cmd, s.name)).collect::<Vec<_>>()});
    std::fs::write(&args[0], v.to_string()).unwrap();
    println!("{v}");
}

const VALID_RON: &str = "(schema:(core:[var(Major),var(Minor),var(Patch)],extra_core:[var(Epoch),var(PreRelease),var(Post),var(Dev)],build:[var(BumpedBranch)]),vars:(major:Some(1),minor:Some(2),patch:Some(3),post:Some(4),bumped_branch:Some(\"main\"),distance:Some(2),dirty:Some(false)))";

const HUGE_RON: &str = "(schema:(core:[var(Major),var(Minor),var(Patch),uint(18446744073709551615)],extra_core:[var(Epoch),var(PreRelease),var(Post),var(Dev)],build:[var(BumpedTimestamp),var(ts(\"YYYY\"))]),vars:(major:Some(18446744073709551615),minor:Some(18446744073709551615),patch:Some(18446744073709551615),epoch:Some(18446744073709551615),post:Some(18446744073709551615),dev:Some(18446744073709551615),pre_release:Some((label:Rc,number:Some(18446744073709551615))),distance:Some(18446744073709551615),bumped_timestamp:Some(18446744073709551615),last_timestamp:Some(9223372036854775808)))";

fn stdin_for(class: &str) -> Option<Vec<u8>> {
    match class {
        "none" => None,
        "empty" => Some(vec![]),
        "valid-ron" => Some(VALID_RON.as_bytes().to_vec()),
        "truncated-ron" => Some(VALID_RON.as_bytes()[..VALID_RON.len() / 2].to_vec()),
        "binary" => Some(vec![0xff, 0xfe, 0x00, 0x01, 0x80, 0x0a, 0xc3, 0x28]),
        "huge-numbers" => Some(HUGE_RON.as_bytes().to_vec()),
        _ => Some(b"1.2.3\n".to_vec()),
    }
}

/// a value the option is likely to accept
fn valid_for(flag: &str, rng: &mut StdRng) -> String {
    let pick = |rng: &mut StdRng, xs: &[&str]| xs[rng.gen_range(0..xs.len())].to_string();
    match flag {
        f if f.contains("output-format") => pick(rng, &["semver", "pep440", "zerv"]),
        f if f.contains("input-format") || f == "--format" => pick(rng, &["semver", "pep440", "auto"]),
        "--source" => pick(rng, &["none", "stdin"]),
        "--schema-ron" => "(core:[var(Major),var(Minor)],extra_core:[var(Post)],build:[var(BumpedBranch)])".into(),
        "--schema" => pick(rng, crate::pipe::PRESETS),          // every preset name (flow refuses the ones it does not support: a clean error)
        f if f.contains("label") => pick(rng, &["alpha", "beta", "rc"]),
        "--branch-rules" => "[(pattern:\"main\",pre_release_label:rc,pre_release_num:1,post_mode:tag)]".into(),
        f if f.contains("template") => pick(rng, &["{{ major }}.{{ minor }}", "{{ semver }}", "v{{ pep440 }}"]),
        "--post-mode" => pick(rng, &["commit", "tag"]),
        "--custom" => pick(rng, &["{}", "{\"k\":1}"]),
        "--core" | "--extra-core" | "--build" => pick(rng, &["0=5", "~1=2", "0=7"]),
        "--bump-core" | "--bump-extra-core" | "--bump-build" => pick(rng, &["0", "0=2", "~1"]),
        "--directory" => ".".into(),
        "--tag-version" => pick(rng, &["1.2.3", "v2.0.0-rc.1", "1.0.0a1", "1!2.3.4.post5"]),
        f if f.contains("branch") => pick(rng, &["main", "feature/x", "release/2"]),
        f if f.contains("hash") && !f.contains("len") => pick(rng, &["abcdef1", "g0123456789abcdef"]),
        "--output-prefix" => pick(rng, &["v", "release-"]),
        "--hash-branch-len" => pick(rng, &["1", "5", "10"]),
        _ => pick(rng, &["0", "1", "2", "7", "1700000000"]),
    }
}

fn value_for(class: &str, rng: &mut StdRng) -> String {
    match class {
        "valid" => ["1", "alpha", "semver", "main", "1.2.3", "standard", "0=5", "commit"][rng.gen_range(0..8)].to_string(),
        "empty" => String::new(),
        "non-ascii" => ["é日本", "Ünï/çødé", "😀", "\u{212A}",
                        // version-shaped texts with case-folding look-alikes (long s, Kelvin sign, dotted I) and fullwidth digits
                        "1.0.0+a\u{17f}b", "1.0.0-\u{212a}1", "v1.2.3+\u{212a}x.7", "1.0.0-rc.\u{17f}", "1.0.0+a\u{130}b",
                        "\u{ff11}.\u{ff12}.\u{ff13}", "1.2.3-\u{661}", "1!2.0\u{212a}1"][rng.gen_range(0..12)].to_string(),
        "long" => "x".repeat(300),
        "minus-one" => "-1".into(),
        "two-pow-32" => "4294967296".into(),
        "two-pow-64" => "18446744073709551616".into(),
        "word" => "not-a-number".into(),
        "bad-ron" => "(core:[var(Major),".into(),
        "bad-json" => "{\"a\":".into(),
        "bad-template" => "{{ major".into(),
        "template-bad-strftime" => "{{ format_timestamp(value=1700000000, format=\"%Q %!\") }}".into(),
        "template-hostile-call" => ["{{ prefix(value=\"é\", length=1) }}", "{{ hash_int(value=1, length=0) }}", "{{ sanitize(value=none, max_length=0) }}",
                                     "{{ 1 / 0 }}", "{{ hash(value=bumped_branch, length=100000) }}", "{{ prefix_if(value=1) }}",
                                     "{{ format_timestamp(value=99999999999999999) }}", "{{ undefined_variable.field }}",
                                     "{{ hash_int(value=\"x\", length=100000, allow_leading_zero=true) }}", "{{ hash_int(value=\"x\", length=18446744073709551615, allow_leading_zero=true) }}",
                                     "{{ hash(value=\"x\", length=18446744073709551615) }}", "{{ prefix(value=\"x\", length=18446744073709551615) }}",
                                     "{{ sanitize(value=\"x\", max_length=18446744073709551615) }}", "{{ hash_int(value=\"x\", length=-1) }}",
                                     "{{ format_timestamp(value=-1) }}", "{{ format_timestamp(value=253402300800, format=\"%Y\") }}"][rng.gen_range(0..16)].to_string(),
        "nul" => "a\u{1}\u{1b}[31mb\u{7f}".into(),   // control characters (a NUL cannot be passed in argv)
        _ => "--".into(),
    }
}

/// base arguments that make the sub-command otherwise runnable
fn base_args(sub: &str, stdin_class: &str) -> Vec<String> {
    let s = |x: &str| x.to_string();
    match sub {
        "version" | "flow" => {
            if stdin_class == "valid-ron" || stdin_class == "huge-numbers" { vec![s(sub), s("--source"), s("stdin")] }
            else { vec![s(sub), s("--source"), s("none"), s("--tag-version"), s("1.2.3-rc.1.post.2"), s("--distance"), s("3"), s("--bumped-branch"), s("feature/x")] }
        }
        "render" => vec![s("render"), s("1.2.3-alpha.1+b.7")],
        _ => vec![s("check"), s("1.2.3")],
    }
}

fn concretise(case: &Value, table: &[(String, Vec<(String, bool)>)], rng: &mut StdRng) -> (Vec<String>, Option<Vec<u8>>, bool) {
    let sub = case["sub"].as_str().unwrap();
    let flags = &table.iter().find(|(n, _)| n == sub).unwrap().1;
    let (flag, takes) = &flags[(case["flag"].as_u64().unwrap() as usize - 1) % flags.len()];
    let stdin_class = case["stdin"].as_str().unwrap();
    let mut a = base_args(sub, stdin_class);
    // drop a base occurrence of the same flag so that the tested value is the one in effect
    if let Some(i) = a.iter().position(|x| x == flag) {
        a.drain(i..(i + 2).min(a.len()));
    }
    let vc = case["vc"].as_str().unwrap();
    let v = match vc {
        "valid" => valid_for(flag, rng),
        // a value this option accepts, respelled: enumerated values are often matched twice (once by
        // the parser, once by the code that acts on them)
        "valid-upper" => valid_for(flag, rng).to_uppercase(),
        "valid-capitalised" => { let v = valid_for(flag, rng); let mut c = v.chars(); c.next().map(|f| f.to_uppercase().collect::<String>() + c.as_str()).unwrap_or_default() }
        "valid-padded" => format!(" {} ", valid_for(flag, rng)),
        _ => value_for(vc, rng),
    };
    if *takes {
        if v.starts_with('-') || rng.gen_bool(0.3) { a.push(format!("{flag}={v}")) } else { a.push(flag.clone()); a.push(v); }
    } else {
        a.push(flag.clone());
    }
    let verbose = case["verbose"].as_bool().unwrap();
    if verbose {
        a.insert(0, "-v".into());
    }
    (a, stdin_for(stdin_class), verbose)
}

fn event(kind: &str, args: &[String], r: &RunObs, verbose: bool, quiet_same: bool, extra: Value) -> Value {
    json!({"k": kind, "argv": args, "o": observation(args, r, verbose, quiet_same), "panic_site": panic_site(&r.stderr),
           "stderr_head": String::from_utf8_lossy(&r.stderr).chars().take(300).collect::<String>(), "extra": extra})
}

pub fn replay(args: &[String]) {
    crate::gitrepo::isolate_git_env();
    let seed: u64 = args.get(2).and_then(|s| s.parse().ok()).unwrap_or(1);
    let cases = tlc_lines(&args[0], "REPLAY");
    let scs = build_scenarios();
    let table = flag_table();
    let indexed: Vec<(usize, &Value)> = cases.iter().enumerate().collect();
    let events = par_map(&indexed, |(i, case)| {
        let mut rng = StdRng::seed_from_u64(seed.wrapping_mul(7919).wrapping_add(*i as u64));
        if case["kind"] == "plan" {
            let sc = &scs[case["scenario"].as_u64().unwrap() as usize - 1];
            let plan: String = arr(&case["faults"]).iter().map(|f| format!("{} {}\n", f["at"], f["mode"].as_str().unwrap())).collect();
            let (a, r, k, log) = run_with_plan(sc, &plan, *i);
            let faults = arr(&case["faults"]);
            let (single_pos, single_mode) = if faults.len() == 1 { (faults[0]["at"].as_u64().unwrap_or(0), faults[0]["mode"].as_str().unwrap_or("").to_string()) } else { (0, String::new()) };
            event("plan", &a, &r, false, true, json!({"scenario": format!("{} {}", sc.cmd, sc.name), "plan": plan.trim(), "git_calls": k, "single_pos": single_pos, "single_mode": single_mode,
                                                      "faulted_call": log.lines().find(|l| arr(&case["faults"]).iter().any(|f| l.starts_with(&format!("{} ", f["at"])))).unwrap_or("")}))
        } else {
            let (a, stdin, verbose) = concretise(case, &table, &mut rng);
            let r = run_bin(&a, stdin.as_deref(), &[], &["RUST_LOG"], None);
            let quiet_same = if verbose {
                let q: Vec<String> = a.iter().filter(|x| *x != "-v").cloned().collect();
                let rq = run_bin(&q, stdin.as_deref(), &[], &["RUST_LOG"], None);
                mask_now(&rq.stdout) == mask_now(&r.stdout) && rq.status == r.status
            } else { true };
            event("args", &a, &r, verbose, quiet_same, json!({"class": case}))
        }
    });
    let mut out = std::io::BufWriter::new(std::fs::File::create(&args[1]).unwrap());
    for e in &events {
        writeln!(out, "{e}").unwrap();
    }
    out.flush().unwrap();
    println!("{}", json!({"module": "cli", "events": events.len()}));
}

/// Repositories in states a tool rarely meets: every one must give Ok or a clean error.
fn odd_repositories() -> Vec<(&'static str, std::path::PathBuf)> {
    let base = std::env::temp_dir().join(format!("zv-odd-{}", std::process::id()));
    let _ = std::fs::remove_dir_all(&base);
    std::fs::create_dir_all(&base).unwrap();
    let git = |dir: &std::path::Path, args: &[&str]| { let _ = Command::new("git").args(args).current_dir(dir).output(); };
    let fresh = |name: &str| -> std::path::PathBuf {
        let d = base.join(name);
        std::fs::create_dir_all(&d).unwrap();
        git(&d, &["init", "-q", "-b", "main"]);
        std::fs::write(d.join("f.txt"), "1\n").unwrap();
        git(&d, &["add", "f.txt"]);
        git(&d, &["commit", "-q", "-m", "c1"]);
        git(&d, &["tag", "v1.2.3"]);
        std::fs::write(d.join("f.txt"), "2\n").unwrap();
        git(&d, &["commit", "-q", "-am", "c2"]);
        d
    };
    let mut v: Vec<(&'static str, std::path::PathBuf)> = vec![];
    // HEAD on an unborn (orphan) branch although the repository has commits and tags
    let d = fresh("orphan"); git(&d, &["checkout", "-q", "--orphan", "fresh-start"]); v.push(("orphan-branch", d));
    // a bare repository
    let d = base.join("bare.git"); std::fs::create_dir_all(&d).unwrap(); git(&d, &["init", "-q", "--bare"]); v.push(("bare", d));
    // .git is an empty directory / a file with garbage / a gitfile pointing nowhere
    let d = base.join("emptygit"); std::fs::create_dir_all(d.join(".git")).unwrap(); v.push(("empty-dot-git-directory", d));
    let d = base.join("filegit"); std::fs::create_dir_all(&d).unwrap(); std::fs::write(d.join(".git"), b"\xff\xfe not a gitfile\n").unwrap(); v.push(("garbage-dot-git-file", d));
    let d = base.join("danglinggit"); std::fs::create_dir_all(&d).unwrap(); std::fs::write(d.join(".git"), "gitdir: /nonexistent/place\n").unwrap(); v.push(("dangling-gitfile", d));
    // HEAD contains garbage; HEAD points to a branch that does not exist
    let d = fresh("badhead"); std::fs::write(d.join(".git").join("HEAD"), "garbage\n").unwrap(); v.push(("garbage-HEAD", d));
    let d = fresh("missingref"); std::fs::write(d.join(".git").join("HEAD"), "ref: refs/heads/gone\n").unwrap(); v.push(("HEAD-to-missing-branch", d));
    // a tag ref pointing to an object that does not exist; an empty tag ref file
    let d = fresh("badtag"); std::fs::write(d.join(".git").join("refs").join("tags").join("v9.9.9"), "0123456789012345678901234567890123456789\n").unwrap(); v.push(("tag-to-missing-object", d));
    let d = fresh("emptytag"); std::fs::write(d.join(".git").join("refs").join("tags").join("v8.8.8"), "").unwrap(); v.push(("empty-tag-ref", d));
    // a shallow marker; an unfinished merge with conflict markers
    let d = fresh("shallow"); let h = String::from_utf8_lossy(&Command::new("git").args(["rev-parse", "HEAD"]).current_dir(&d).output().unwrap().stdout).to_string();
    std::fs::write(d.join(".git").join("shallow"), h).unwrap(); v.push(("shallow-marker", d));
    let d = fresh("conflict");
    git(&d, &["checkout", "-q", "-b", "side", "HEAD~1"]); std::fs::write(d.join("f.txt"), "3\n").unwrap(); git(&d, &["commit", "-q", "-am", "side"]);
    git(&d, &["checkout", "-q", "main"]); git(&d, &["merge", "-q", "side"]); v.push(("unfinished-merge", d));
    // healthy repositories whose CONTENT is hostile: what git prints about them is long and not ASCII
    // (tag lists, branch names, file names) - four variants shifted by one byte each, so that any fixed
    // byte position falls inside a multi-byte character in one of them
    for (k, name) in ["non-ascii-refs-0", "non-ascii-refs-1", "non-ascii-refs-2", "non-ascii-refs-3"].into_iter().enumerate() {
        let d = fresh(name);
        let pad = "a".repeat(k);
        // (a path component of a ref is limited to 255 bytes: several long components)
        let seg = "ブランチ".repeat(15);
        git(&d, &["checkout", "-q", "-b", &format!("{pad}機能/とても長いブランチ名/{seg}/{seg}-😀/{seg}")]);
        for t in ["リリース候補", "日本語のタグ", "v2.0.0-ベータ", "émoji-😀😀😀", "ταγ", "метка-выпуска"] {
            git(&d, &["tag", &format!("{pad}{t}")]);
            git(&d, &["tag", &format!("{pad}{t}-{}", "とても長いタグ名".repeat(3))]);
        }
        git(&d, &["tag", "v1.3.0"]);
        git(&d, &["tag", "-a", "v1.3.1", "-m", "annotated: リリース 😀"]);
        std::fs::write(d.join(format!("{pad}未追跡ファイル-😀.txt")), "u\n").unwrap();
        v.push((name, d));
    }
    // a long history: the tag is 300 commits back and most commits carry a non-version tag
    let d = fresh("long-history");
    for i in 0..300 {
        git(&d, &["commit", "-q", "--allow-empty", "-m", &format!("c{i}")]);
        if i % 3 != 0 { git(&d, &["tag", &format!("build/{i}")]); }
    }
    v.push(("long-history", d));
    // -C names a file
    std::fs::write(base.join("plainfile"), "x").unwrap(); v.push(("not-a-directory", base.join("plainfile")));
    // a work tree that is a sub-directory of a repository whose root is not readable as a repository any more
    let d = fresh("objectsgone"); let _ = std::fs::remove_dir_all(d.join(".git").join("objects")); v.push(("objects-directory-removed", d));
    v
}

/// random multi-flag argument vectors and special situations (git missing, not a repository, ...)
pub fn record(args: &[String]) {
    crate::gitrepo::isolate_git_env();
    let seed: u64 = args[0].parse().unwrap();
    let n: usize = args[1].parse().unwrap();
    let table = flag_table();
    let classes = ["valid", "valid", "valid", "empty", "non-ascii", "long", "minus-one", "two-pow-32", "two-pow-64", "word", "bad-ron", "bad-json",
                   "bad-template", "template-bad-strftime", "template-hostile-call", "nul", "leading-dash"];
    let stdins = ["none", "none", "empty", "valid-ron", "valid-ron", "truncated-ron", "binary", "plain-version", "huge-numbers", "huge-numbers"];
    let idx: Vec<usize> = (0..n).collect();
    let empty_dir = std::env::temp_dir().join(format!("zv-empty-{}", std::process::id()));
    std::fs::create_dir_all(&empty_dir).unwrap();
    let norepo = Repo::new(0);
    // a repository without any commit
    let empty_repo = std::env::temp_dir().join(format!("zv-nocommit-{}", std::process::id()));
    std::fs::create_dir_all(&empty_repo).unwrap();
    let _ = Command::new("git").args(["init", "-q", "-b", "main"]).current_dir(&empty_repo).output();
    // unusual repository states, built once and only read afterwards
    let odd = odd_repositories();
    let events = par_map(&idx, |i| {
        let mut rng = StdRng::seed_from_u64(seed.wrapping_mul(104_729).wrapping_add(*i as u64));
        if i % 40 == 19 {
            let (name, dir) = &odd[rng.gen_range(0..odd.len())];
            let cmd = ["version", "flow"][rng.gen_range(0..2)];
            let mut a: Vec<String> = vec![cmd.into(), "-C".into(), dir.display().to_string()];
            if rng.gen_bool(0.5) { a.push("--output-format".into()); a.push(["semver", "pep440", "zerv"][rng.gen_range(0..3)].into()); }
            if rng.gen_bool(0.5) { a.insert(0, "-v".into()); }
            let env: Vec<(String, String)> = if rng.gen_bool(0.25) { vec![("RUST_LOG".into(), ["debug", "trace"][rng.gen_range(0..2)].into())] } else { vec![] };
            let r = run_bin(&a, None, &env, if env.is_empty() { &["RUST_LOG"] } else { &[] }, None);
            return event("special", &a, &r, false, true, json!({"repository": name}));
        }
        if i % 20 == 7 {
            // every kind of version string handed to check / render / --tag-version: the generators of the
            // parser checks (valid, nearly valid, junk, look-alike characters, huge numbers)
            let s = if rng.gen_bool(0.5) { crate::pep440::random_version(&mut rng) } else { crate::semver::random_version(&mut rng) };
            let s = match rng.gen_range(0..6) { 0 => format!("{s}+a\u{17f}b"), 1 => format!("{s}-\u{212a}1"), _ => s };
            let a: Vec<String> = match rng.gen_range(0..5) {
                0 => vec!["check".into(), s],
                1 => vec!["check".into(), s, "--format".into(), ["semver", "pep440"][rng.gen_range(0..2)].into()],
                2 => vec!["render".into(), s, "--output-format".into(), ["semver", "pep440", "zerv"][rng.gen_range(0..3)].into()],
                3 => vec!["version".into(), "--source".into(), "none".into(), "--tag-version".into(), s],
                _ => vec!["flow".into(), "--source".into(), "none".into(), "--tag-version".into(), s, "--input-format".into(), ["auto", "semver", "pep440"][rng.gen_range(0..3)].into()],
            };
            if a.iter().any(|x| x.contains('\0')) {
                return event("special", &["check".to_string(), "1.2.3".to_string()], &run_bin(&["check".to_string(), "1.2.3".to_string()], None, &[], &["RUST_LOG"], None), false, true, json!({}));
            }
            let r = run_bin(&a, None, &[], &["RUST_LOG"], None);
            return event("special", &a, &r, false, true, json!({"version-string": true}));
        }
        if i % 40 == 39 {
            // special situations
            let (a, env, rm): (Vec<String>, Vec<(String, String)>, Vec<&str>) = match rng.gen_range(0..6) {
                4 => (vec!["version".into(), "-C".into(), empty_repo.display().to_string()], vec![], vec![]),                // no commits
                5 => (vec!["flow".into(), "-C".into(), empty_repo.display().to_string(), "--output-format".into(), "pep440".into()], vec![], vec![]),
                0 => (vec!["version".into(), "-C".into(), empty_dir.display().to_string()], vec![], vec![]),                 // not a repository
                1 => (vec!["version".into(), "-C".into(), norepo.dir.display().to_string()], vec![("PATH".into(), "/nonexistent".into())], vec![]), // git missing
                2 => (vec!["flow".into(), "-C".into(), "/nonexistent/dir".into()], vec![], vec![]),
                _ => (vec!["version".into(), "-C".into(), norepo.dir.display().to_string(), "--input-format".into(), "pep440".into()], vec![], vec![]), // no tags
            };
            let r = run_bin(&a, None, &env, &rm, None);
            return event("special", &a, &r, false, true, json!({}));
        }
        let (sub, flags) = &table[[0, 0, 0, 1, 1, 2, 3][rng.gen_range(0..7)]];
        let stdin_class = stdins[rng.gen_range(0..stdins.len())];
        let mut a = base_args(sub, stdin_class);
        let nf = rng.gen_range(1..6);
        for _ in 0..nf {
            let (flag, takes) = &flags[rng.gen_range(0..flags.len())];
            if *takes {
                let vc = if rng.gen_bool(0.75) { "valid" } else { classes[rng.gen_range(0..classes.len())] };
                let v = if vc == "valid" { valid_for(flag, &mut rng) } else { value_for(vc, &mut rng) };
                if v.starts_with('-') || rng.gen_bool(0.3) { a.push(format!("{flag}={v}")) } else { a.push(flag.clone()); a.push(v); }
            } else {
                a.push(flag.clone());
            }
        }
        let verbose = rng.gen_bool(0.2);
        if verbose {
            a.insert(0, "-v".into());
        }
        let env: Vec<(String, String)> = if rng.gen_bool(0.2) { vec![("RUST_LOG".into(), ["debug", "trace", "zerv=trace", "garbage=="][rng.gen_range(0..4)].into())] } else { vec![] };
        let stdin = stdin_for(stdin_class);
        let r = run_bin(&a, stdin.as_deref(), &env, &[], None);
        let quiet_same = if verbose {
            let q: Vec<String> = a.iter().filter(|x| *x != "-v").cloned().collect();
            let rq = run_bin(&q, stdin.as_deref(), &[], &["RUST_LOG"], None);
            // a dirty object gets a wall-clock dev / timestamp: compare only when both runs fell in the same second is too strict; compare shapes
            rq.status == r.status && mask_now(&rq.stdout) == mask_now(&r.stdout)
        } else { true };
        event("args", &a, &r, verbose, quiet_same, json!({"stdin": stdin_class}))
    });
    let _ = std::fs::remove_dir_all(&empty_dir);
    let _ = std::fs::remove_dir_all(std::env::temp_dir().join(format!("zv-odd-{}", std::process::id())));
    let _ = std::fs::remove_dir_all(&empty_repo);
    let mut out = std::io::BufWriter::new(std::fs::File::create(&args[2]).unwrap());
    for e in &events {
        writeln!(out, "{e}").unwrap();
    }
    out.flush().unwrap();
    println!("{}", json!({"module": "cli", "events": events.len()}));
}

/// `zv flags <out.json>`: the option table of the current build (long and short names, arity),
/// including global options, for the Python API check (C18)
pub fn flags(args: &[String]) {
    let mut cmd = zerv::cli::Cli::command();
    cmd.build();
    let mut table = serde_json::Map::new();
    for name in ["version", "flow", "render", "check"] {
        let sub = cmd.find_subcommand(name).expect("sub-command");
        let mut opts = vec![];
        for a in sub.get_arguments() {
            if a.is_positional() {
                continue;
            }
            let takes = a.get_action().takes_values();
            if let Some(l) = a.get_long() {
                opts.push(json!({"opt": format!("--{l}"), "takes": takes}));
            }
            if let Some(c) = a.get_short() {
                opts.push(json!({"opt": format!("-{c}"), "takes": takes}));
            }
        }
        table.insert(name.to_string(), Value::Array(opts));
    }
    let v = Value::Object(table);
    std::fs::write(&args[0], v.to_string()).unwrap();
    println!("{v}");
}

// ------------------------------------------------------------ input selection --
/// `zv replay input <tlc-output>`: every run of the Input.tla machine (--source flag x stdin kind x
/// working directory x -C) as a run of the real binary, for `version` and `flow`.  The three
/// places print different versions, so the output says whose version was read.
pub fn replay_input(args: &[String]) {
    crate::gitrepo::isolate_git_env();
    let base = std::env::temp_dir().join(format!("zv-input-{}", std::process::id()));
    let _ = std::fs::remove_dir_all(&base);
    let git = |dir: &std::path::Path, a: &[&str]| { let _ = Command::new("git").args(a).current_dir(dir).output(); };
    let mk = |name: &str| { let d = base.join(name); std::fs::create_dir_all(&d).unwrap(); d };
    let tagged = mk("tagged");
    git(&tagged, &["init", "-q", "-b", "main"]); git(&tagged, &["commit", "-q", "--allow-empty", "-m", "c1"]); git(&tagged, &["tag", "v3.1.4"]);
    let untagged = mk("untagged");
    git(&untagged, &["init", "-q", "-b", "main"]); git(&untagged, &["commit", "-q", "--allow-empty", "-m", "c1"]); git(&untagged, &["tag", "latest"]);
    let norepo = mk("norepo");
    let place = |k: &str| match k { "tagged" => tagged.clone(), "untagged" => untagged.clone(), _ => norepo.clone() };
    let doc = "(schema:(core:[var(Major),var(Minor),var(Patch)],extra_core:[],build:[]),vars:(major:Some(7),minor:Some(7),patch:Some(7)))";
    // nothing above the scratch directory may be taken for a repository
    let env = vec![("GIT_CEILING_DIRECTORIES".to_string(), base.display().to_string())];
    let cases = tlc_lines(&args[0], "REPLAY");
    let jobs: Vec<(usize, &str)> = (0..cases.len()).flat_map(|i| [(i, "version"), (i, "flow")]).collect();
    let results = par_map(&jobs, |(i, cmd)| {
        let c = &cases[*i];
        let mut a: Vec<String> = vec![cmd.to_string()];
        if c["flag"] != "unset" { a.push("--source".into()); a.push(c["flag"].as_str().unwrap().into()); }
        if c["dashC"] != "absent" { a.push("-C".into()); a.push(place(c["dashC"].as_str().unwrap()).display().to_string()); }
        let stdin: Option<&[u8]> = match c["stdin"].as_str().unwrap() { "closed" => None, "blank" => Some(b"  \n\t\n"), "document" => Some(doc.as_bytes()), _ => Some(b"(not ron") };
        let r = run_bin(&a, stdin, &env, &["RUST_LOG"], Some(&place(c["cwd"].as_str().unwrap())));
        (a, r)
    });
    let mut rep = Report::new("input");
    for ((i, _), (a, r)) in jobs.iter().zip(results) {
        let c = &cases[*i];
        rep.evaluations += 1;
        if c["flag"] == "unset" || c["dashC"] != "absent" { rep.nontrivial += 1; }
        let out = String::from_utf8_lossy(&r.stdout).to_string();
        let want = if c["ok"].as_bool().unwrap() { match c["from"].as_str().unwrap() { "git" => "3.1.4\n", "stdin" => "7.7.7\n", _ => "0.0.0\n" } } else { "" };
        let ok = if want.is_empty() { r.status != 0 && r.signal == 0 && out.is_empty() } else { r.status == 0 && out == want };
        if !ok {
            rep.mismatch("X:input-selection", json!({"argv": a, "stdin": c["stdin"], "cwd": c["cwd"], "expected": if want.is_empty() { "a refusal" } else { want.trim() },
                                                     "from": c["from"], "status": r.status, "signal": r.signal, "stdout": out, "stderr": String::from_utf8_lossy(&r.stderr).chars().take(200).collect::<String>()}));
        } else if rep.samples.len() < 4 && c["flag"] == "unset" {
            rep.sample(json!({"argv": a, "stdin": c["stdin"], "cwd": c["cwd"], "stdout": out.trim()}));
        }
    }
    let _ = std::fs::remove_dir_all(&base);
    rep.print();
}
