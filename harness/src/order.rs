//! C10 / C11: Ord and PartialEq of SemVer and PEP440, and GitUtils::find_max_version_tag,
//! against SemVerOrder / Pep440Order.
use std::cmp::Ordering;
use std::io::Write;
use std::str::FromStr;

use rand::rngs::StdRng;
use rand::seq::SliceRandom;
use rand::{Rng, SeedableRng};
use serde_json::{Value, json};
use zerv::vcs::git_utils::GitUtils;
use zerv::version::VersionObject;
use zerv::version::pep440::PEP440;
use zerv::version::semver::SemVer;

use crate::wire::*;

fn ord_i(o: Ordering) -> i64 {
    match o {
        Ordering::Less => -1,
        Ordering::Equal => 0,
        Ordering::Greater => 1,
    }
}

/// (cmp, eq, reverse cmp) of two version strings under the given format, or an error text
fn compare(fmt: &str, a: &str, b: &str) -> Result<(i64, bool, i64), String> {
    let (a, b) = (a.to_string(), b.to_string());
    let fmt = fmt.to_string();
    guarded(move || {
        if fmt == "semver" {
            let (x, y) = (SemVer::from_str(&a), SemVer::from_str(&b));
            match (x, y) {
                (Ok(x), Ok(y)) => Ok((ord_i(x.cmp(&y)), x == y, ord_i(y.cmp(&x)))),
                _ => Err("rejected".to_string()),
            }
        } else {
            let (x, y) = (PEP440::from_str(&a), PEP440::from_str(&b));
            match (x, y) {
                (Ok(x), Ok(y)) => Ok((ord_i(x.cmp(&y)), x == y, ord_i(y.cmp(&x)))),
                _ => Err("rejected".to_string()),
            }
        }
    })
    .unwrap_or_else(|m| Err(format!("panic: {m}")))
}

pub fn replay(fmt: &str, args: &[String]) {
    let pid = if fmt == "semver" { "C10" } else { "C11" };
    let mut rep = Report::new(&format!("{fmt}-order"));
    let mut distinct = std::collections::HashSet::new();
    for case in tlc_lines(&args[0], "REPLAY") {
        let a = cps(&case["a"]);
        let b = cps(&case["b"]);
        let want = case["cmp"].as_i64().unwrap();
        rep.evaluations += 1;
        if want != 0 {
            rep.nontrivial += 1;
        }
        distinct.insert(a.clone());
        if rep.evaluations % 7919 == 1 {
            rep.sample(json!({"a": a, "b": b, "cmp": want}));
        }
        match compare(fmt, &a, &b) {
            Err(msg) => rep.mismatch(&format!("{pid}:error"), json!({"a": a, "b": b, "expected": want, "observed": msg})),
            Ok((c, eq, rc)) => {
                if c != want || eq != (want == 0) || rc != -want {
                    rep.mismatch(
                        &format!("{pid}:order"),
                        json!({"a": a, "b": b, "expected": {"cmp": want, "eq": want == 0},
                               "observed": {"cmp": c, "eq": eq, "reverse": rc}}),
                    );
                }
            }
        }
    }
    rep.extra.insert("distinct_spellings".into(), json!(distinct.len()));
    rep.print();
}

// ---------------------------------------------------------------- recorders --
const SV_NUM: &[&str] = &["0", "1", "2", "9", "10", "11", "99", "100", "4294967295", "4294967296", "18446744073709551615", "18446744073709551614", "9223372036854775808",
    // beyond u64 (kept as text by the parser, still numeric identifiers): different lengths, adjacent values
    "18446744073709551616", "99999999999999999999", "100000000000000000000", "100000000000000000001"];
const SV_ID: &[&str] = &["alpha", "beta", "rc", "a", "A", "B", "a0", "a-", "-", "0a", "x-1", "Z9", "z", "aa", "ab"];

fn sv_random(rng: &mut StdRng) -> String {
    let p = |rng: &mut StdRng| {
        let hi = if rng.gen_bool(0.8) { 5 } else { SV_NUM.len() };
        SV_NUM[rng.gen_range(0..hi)]
    };
    let mut s = format!("{}.{}.{}", p(rng), p(rng), p(rng));
    if rng.gen_bool(0.7) {
        let n = rng.gen_range(1..5);
        let ids: Vec<&str> = (0..n)
            .map(|_| if rng.gen_bool(0.5) { SV_NUM[rng.gen_range(0..SV_NUM.len())] } else { SV_ID[rng.gen_range(0..SV_ID.len())] })
            .collect();
        s.push('-');
        s += &ids.join(".");
    }
    if rng.gen_bool(0.3) {
        s += ["+b", "+001", "+x.y", "+1"][rng.gen_range(0..4)];
    }
    s
}

const PEP_NUM: &[&str] = &["0", "1", "2", "3", "10", "007", "01", "100", "4294967295", "4294967294", "2147483648", "65536", "004294967295"];

/// the same version with ONE number replaced by a neighbour (n-1, n+1) or by a width boundary:
/// adjacent versions are where a comparison key that loses information shows
fn neighbour(s: &str, rng: &mut StdRng, max: u128) -> String {
    let b = s.as_bytes();
    let mut runs = vec![];
    let mut i = 0;
    while i < b.len() {
        if b[i].is_ascii_digit() {
            let j = (i..b.len()).find(|&j| !b[j].is_ascii_digit()).unwrap_or(b.len());
            runs.push((i, j));
            i = j;
        } else {
            i += 1;
        }
    }
    if runs.is_empty() {
        return s.to_string();
    }
    let (i, j) = runs[rng.gen_range(0..runs.len())];
    let Ok(n) = s[i..j].parse::<u128>() else { return s.to_string() };
    let m = match rng.gen_range(0..6) {
        0 => n.saturating_sub(1),
        1 | 2 => (n + 1).min(max),
        3 => max,
        4 => max - 1,
        _ => if n == max { max - 1 } else if n == max - 1 { max } else { n + 1 },
    };
    format!("{}{}{}", &s[..i], m, &s[j..])
}

fn pep_random(rng: &mut StdRng) -> String {
    let num = |rng: &mut StdRng| PEP_NUM[rng.gen_range(0..PEP_NUM.len())];
    let sep = |rng: &mut StdRng| ["", "", ".", "-", "_"][rng.gen_range(0..5)];
    let mut s = String::new();
    if rng.gen_bool(0.1) {
        s.push('v');
    }
    if rng.gen_bool(0.25) {
        s += ["0!", "1!", "01!", "2!"][rng.gen_range(0..4)];
    }
    let n = rng.gen_range(1..5);
    let rel: Vec<&str> = (0..n).map(|_| ["0", "1", "2", "10", "01", "0", "0"][rng.gen_range(0..7)]).collect();
    s += &rel.join(".");
    if rng.gen_bool(0.5) {
        s += sep(rng);
        s += ["a", "alpha", "A", "b", "beta", "Beta", "c", "rc", "RC", "pre", "preview"][rng.gen_range(0..11)];
        s += sep(rng);
        if rng.gen_bool(0.8) {
            s += num(rng);
        }
    }
    if rng.gen_bool(0.4) {
        if rng.gen_bool(0.2) {
            s.push('-');
            s += num(rng);
        } else {
            s += sep(rng);
            s += ["post", "rev", "r", "POST"][rng.gen_range(0..4)];
            s += sep(rng);
            if rng.gen_bool(0.8) {
                s += num(rng);
            }
        }
    }
    if rng.gen_bool(0.4) {
        s += sep(rng);
        s += ["dev", "DEV"][rng.gen_range(0..2)];
        s += sep(rng);
        if rng.gen_bool(0.8) {
            s += num(rng);
        }
    }
    if rng.gen_bool(0.35) {
        s.push('+');
        let n = rng.gen_range(1..4);
        let parts: Vec<&str> =
            (0..n).map(|_| ["1", "01", "10", "a", "A", "b", "ab", "a1", "1a", "z", "0",
                            // text parts that begin with a digit, of different lengths; numerals beyond u32
                            "9z", "10a", "2x", "1x2", "7f3a", "12ab9c1", "0a", "99999999999", "100000000000", "4294967296", "4294967295", "099999999999"][rng.gen_range(0..23)]).collect();
        s += &parts.join(["." , "-", "_"][rng.gen_range(0..3)]);
    }
    s
}

fn list_json(v: &[String]) -> Value {
    Value::Array(v.iter().map(|s| to_cps(s)).collect())
}

pub fn record(fmt: &str, args: &[String]) {
    let seed: u64 = args[0].parse().unwrap();
    let n: usize = args[1].parse().unwrap();
    let mut out = std::io::BufWriter::new(std::fs::File::create(&args[2]).unwrap());
    let mut rng = StdRng::seed_from_u64(seed);
    let gen_one = |rng: &mut StdRng| if fmt == "semver" { sv_random(rng) } else { pep_random(rng) };
    let (kc, km, ks) = if fmt == "semver" { ("svcmp", "svmax", "svsort") } else { ("pepcmp", "pepmax", "pepsort") };
    for i in 0..n {
        match i % 10 {
            8 => {
                // find_max_version_tag on a random tag set
                let k = rng.gen_range(1..7);
                let mut tags: Vec<String> = (0..k).map(|_| gen_one(&mut rng)).collect();
                tags.shuffle(&mut rng);
                let t2 = tags.clone();
                let f = fmt.to_string();
                let res = guarded(move || {
                    let valid: Vec<(String, VersionObject)> = GitUtils::filter_only_valid_tags(&t2, &f);
                    (valid.len(), GitUtils::find_max_version_tag(&valid))
                });
                let ev = match res {
                    Ok((nvalid, Ok(Some(m)))) => json!({"k": km, "tags": list_json(&tags), "nvalid": nvalid, "panic": false, "some": true, "max": to_cps(&m)}),
                    Ok((nvalid, _)) => json!({"k": km, "tags": list_json(&tags), "nvalid": nvalid, "panic": false, "some": false, "max": []}),
                    Err(_) => json!({"k": km, "tags": list_json(&tags), "nvalid": 0, "panic": true, "some": false, "max": []}),
                };
                writeln!(out, "{ev}").unwrap();
            }
            9 => {
                // sort() of a random list must be sorted under the specification's order
                let k = rng.gen_range(2..8);
                let items: Vec<String> = (0..k).map(|_| gen_one(&mut rng)).collect();
                let it2 = items.clone();
                let f = fmt.to_string();
                let res = guarded(move || {
                    if f == "semver" {
                        let mut v: Vec<(SemVer, String)> = it2.iter().map(|s| (SemVer::from_str(s).unwrap(), s.clone())).collect();
                        v.sort_by(|a, b| a.0.cmp(&b.0));
                        v.into_iter().map(|x| x.1).collect::<Vec<_>>()
                    } else {
                        let mut v: Vec<(PEP440, String)> = it2.iter().map(|s| (PEP440::from_str(s).unwrap(), s.clone())).collect();
                        v.sort_by(|a, b| a.0.cmp(&b.0));
                        v.into_iter().map(|x| x.1).collect::<Vec<_>>()
                    }
                });
                let ev = match res {
                    Ok(sorted) => json!({"k": ks, "panic": false, "sorted": list_json(&sorted)}),
                    Err(_) => json!({"k": ks, "panic": true, "sorted": list_json(&items)}),
                };
                writeln!(out, "{ev}").unwrap();
            }
            _ => {
                let a = gen_one(&mut rng);
                // related pairs are more interesting than independent ones
                let max = if fmt == "semver" { u64::MAX as u128 } else { u32::MAX as u128 };
                let (a, b) = match rng.gen_range(0..10) {
                    0..=1 => (a.clone(), a),
                    2..=4 => { let b = neighbour(&a, &mut rng, max); (a, b) }
                    // both at the top of the range, one step apart in one field
                    5 => { let a2 = neighbour(&a, &mut rng, max); let b = neighbour(&a2, &mut rng, max); (a2, b) }
                    _ => { let b = gen_one(&mut rng); (a, b) }
                };
                let ev = match compare(fmt, &a, &b) {
                    Ok((c, eq, rc)) => json!({"k": kc, "a": to_cps(&a), "b": to_cps(&b), "panic": false, "cmp": c, "eq": eq, "rcmp": rc}),
                    Err(_) => json!({"k": kc, "a": to_cps(&a), "b": to_cps(&b), "panic": true, "cmp": 0, "eq": false, "rcmp": 0}),
                };
                writeln!(out, "{ev}").unwrap();
            }
        }
    }
    out.flush().unwrap();
    println!("{}", json!({"module": "order", "events": n}));
}
