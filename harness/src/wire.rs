//! Wire format shared with the TLA+ side: text as arrays of code points, numbers that may
//! exceed 2^31-1 as arrays of decimal digits, options as {"s":0} / {"s":1,"v":x}.
use std::fs::File;
use std::io::{BufRead, BufReader};

use serde_json::{Value, json};

/// Decode the TLC-printed strings `"<prefix> {json}"` of a TLC output file.
pub fn tlc_lines(path: &str, prefix: &str) -> Vec<Value> {
    let f = File::open(path).unwrap_or_else(|e| panic!("cannot open {path}: {e}"));
    let pre = format!("\"{prefix} ");
    let mut res = Vec::new();
    for line in BufReader::new(f).lines() {
        let Ok(line) = line else { continue };
        if !line.starts_with(&pre) {
            continue;
        }
        let s: String = serde_json::from_str(&line).expect("TLC string");
        let v: Value = serde_json::from_str(&s[prefix.len() + 1..]).expect("payload json");
        res.push(v);
    }
    res
}

/// Same lines, handed over in chunks so that millions of behaviours need not be held in memory.
pub fn tlc_lines_chunked(path: &str, prefix: &str, chunk: usize, mut f: impl FnMut(Vec<Value>)) {
    let file = File::open(path).unwrap_or_else(|e| panic!("cannot open {path}: {e}"));
    let pre = format!("\"{prefix} ");
    let mut res = Vec::with_capacity(chunk);
    for line in BufReader::new(file).lines() {
        let Ok(line) = line else { continue };
        if !line.starts_with(&pre) {
            continue;
        }
        let s: String = serde_json::from_str(&line).expect("TLC string");
        res.push(serde_json::from_str(&s[prefix.len() + 1..]).expect("payload json"));
        if res.len() == chunk {
            f(std::mem::replace(&mut res, Vec::with_capacity(chunk)));
        }
    }
    if !res.is_empty() {
        f(res);
    }
}

pub fn cps(v: &Value) -> String {
    match v {
        Value::Array(a) => a
            .iter()
            .map(|c| char::from_u32(c.as_u64().unwrap() as u32).unwrap_or('\u{fffd}'))
            .collect(),
        // TLC prints the empty sequence and the empty function alike
        Value::Object(o) if o.is_empty() => String::new(),
        Value::String(s) => s.clone(),
        _ => panic!("not text: {v}"),
    }
}

pub fn to_cps(s: &str) -> Value {
    Value::Array(s.chars().map(|c| json!(c as u32)).collect())
}

/// decimal digit array -> decimal string
pub fn digits(v: &Value) -> String {
    match v {
        Value::Array(a) => a.iter().map(|d| char::from(b'0' + d.as_u64().unwrap() as u8)).collect(),
        _ => panic!("not digits: {v}"),
    }
}

pub fn to_digits(s: &str) -> Value {
    Value::Array(s.bytes().map(|b| json!((b - b'0') as u32)).collect())
}

pub fn arr(v: &Value) -> Vec<Value> {
    match v {
        Value::Array(a) => a.clone(),
        Value::Object(o) if o.is_empty() => vec![],
        _ => panic!("not an array: {v}"),
    }
}

pub fn panic_msg(e: Box<dyn std::any::Any + Send>) -> String {
    if let Some(s) = e.downcast_ref::<&str>() {
        s.to_string()
    } else if let Some(s) = e.downcast_ref::<String>() {
        s.clone()
    } else {
        "panic".to_string()
    }
}

/// Run a closure, turning a panic into Err(message).  Panics are data, not tool errors.
pub fn guarded<T>(f: impl FnOnce() -> T + std::panic::UnwindSafe) -> Result<T, String> {
    std::panic::catch_unwind(f).map_err(panic_msg)
}

#[derive(Default)]
pub struct Report {
    pub module: String,
    pub evaluations: u64,
    pub nontrivial: u64,
    pub samples: Vec<Value>,
    pub mismatches: Vec<Value>,
    pub mismatch_count: u64,
    pub extra: serde_json::Map<String, Value>,
}

impl Report {
    pub fn new(module: &str) -> Self {
        Report { module: module.to_string(), ..Default::default() }
    }
    pub fn sample(&mut self, v: Value) {
        if self.samples.len() < 6 {
            self.samples.push(v);
        }
    }
    pub fn mismatch(&mut self, key: &str, detail: Value) {
        self.mismatch_count += 1;
        // keep every key's first few occurrences so that one noisy key cannot hide another
        let n = self.mismatches.iter().filter(|m| m["key"] == key).count();
        if n < 5 {
            let mut d = detail;
            d["key"] = json!(key);
            self.mismatches.push(d);
        }
    }
    pub fn print(&self) {
        let mut by = serde_json::Map::new();
        for m in &self.mismatches {
            let k = m["key"].as_str().unwrap().to_string();
            let c = by.get(&k).and_then(|v| v.as_u64()).unwrap_or(0);
            by.insert(k, json!(c + 1));
        }
        let v = json!({
            "module": self.module,
            "evaluations": self.evaluations,
            "nontrivial": self.nontrivial,
            "samples": self.samples,
            "mismatches": self.mismatches,
            "mismatch_count": self.mismatch_count,
            "extra": self.extra,
        });
        println!("{v}");
    }
}

/// Map over the cases on several threads, keeping the order of the results.
pub fn par_map<T: Send + Sync, R: Send>(items: &[T], f: impl Fn(&T) -> R + Sync) -> Vec<R> {
    let threads: usize = std::env::var("ZV_THREADS").ok().and_then(|s| s.parse().ok()).unwrap_or(12).max(1);
    let chunk = items.len().div_ceil(threads).max(1);
    let f = &f;
    std::thread::scope(|s| {
        let handles: Vec<_> = items.chunks(chunk).map(|c| s.spawn(move || c.iter().map(f).collect::<Vec<R>>())).collect();
        handles.into_iter().flat_map(|h| h.join().expect("worker thread")).collect()
    })
}

/// civil fields of a day number (days since 1970-01-01, proleptic Gregorian; Hinnant's civil_from_days),
/// as the calendar modules carry them: (y, m, d, weekday with Monday = 0, day of year).  The trace
/// specs re-validate them with Calendar!ValidCivil, so this arithmetic is not trusted.
pub fn civil(day: u64) -> (i64, i64, i64, i64, i64) {
    let z = day as i64 + 719_468;
    let era = z.div_euclid(146_097);
    let doe = z.rem_euclid(146_097);
    let yoe = (doe - doe / 1460 + doe / 36_524 - doe / 146_096) / 365;
    let doy = doe - (365 * yoe + yoe / 4 - yoe / 100);
    let mp = (5 * doy + 2) / 153;
    let d = doy - (153 * mp + 2) / 5 + 1;
    let m = if mp < 10 { mp + 3 } else { mp - 9 };
    let y = yoe + era * 400 + if m <= 2 { 1 } else { 0 };
    let leap = (y % 4 == 0 && y % 100 != 0) || y % 400 == 0;
    let cum = [0, 31, 59, 90, 120, 151, 181, 212, 243, 273, 304, 334];
    let yd = cum[(m - 1) as usize] + d + if leap && m > 2 { 1 } else { 0 };
    (y, m, d, (day as i64 + 3) % 7, yd)
}

pub fn civil_json(day: u64) -> Value {
    let (y, m, d, wd, yd) = civil(day);
    json!({"day": day, "y": y, "m": m, "d": d, "wd": wd, "yd": yd})
}
