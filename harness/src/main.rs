//! zv - conformance harness binding the TLA+ specification to the zerv implementation.
//!   zv replay <module> <tlc-output>      TLC-generated behaviours -> real calls, compare
//!   zv record <module> <seed> <n> <out>  seeded random real calls -> ndjson trace for TLC
mod calendar;
mod cli;
mod convert;
mod envrun;
mod flow;
mod gitrepo;
mod order;
mod pep440;
mod pipe;
mod proc;
mod render;
mod ron;
mod sanitizer;
mod semver;
mod template;
mod wire;
mod zmodel;

fn main() {
    // a panic in the code under test is data: keep the default hook quiet
    if std::env::var("ZV_DEBUG").is_err() {
        std::panic::set_hook(Box::new(|_| {}));
    }
    let args: Vec<String> = std::env::args().collect();
    if args.len() < 3 {
        eprintln!("usage: zv replay|record <module> ...");
        std::process::exit(2);
    }
    let rest = &args[3..];
    match (args[1].as_str(), args[2].as_str()) {
        ("replay", "sanitizer") => sanitizer::replay(rest),
        ("record", "sanitizer") => sanitizer::record(rest),
        ("replay", "calendar") => calendar::replay(rest),
        ("record", "calendar") => calendar::record(rest),
        ("replay", "convert") => convert::replay(rest),
        ("replay", "tozerv") => convert::replay_tozerv(rest),
        ("record", "convert") => convert::record(rest),
        ("replay", "gitrepo") => gitrepo::replay(rest),
        ("record", "gitrepo") => gitrepo::record(rest),
        ("replay", "flow") => flow::replay(rest),
        ("record", "flow") => flow::record(rest),
        ("replay", "pipe") => pipe::replay(rest),
        ("record", "pipe") => pipe::record(rest),
        ("replay", "schema") => ron::replay_schema(rest),
        ("record", "ron") => ron::record(rest),
        ("replay", "template") => template::replay(rest),
        ("record", "template") => template::record(rest),
        ("replay", "cli") => proc::replay(rest),
        ("replay", "input") => proc::replay_input(rest),
        ("record", "cli") => proc::record(rest),
        ("measure", "cli") => proc::measure(rest),
        ("flags", "cli") => proc::flags(rest),
        ("record", "env") => envrun::record(rest),
        ("replay", "render") => render::replay(rest),
        ("record", "render") => render::record(rest),
        ("replay", "zerv") => zmodel::replay(rest),
        ("record", "zerv") => zmodel::record(rest),
        ("record", "bigbump") => zmodel::record_big(rest),
        ("replay", "semver-order") => order::replay("semver", rest),
        ("replay", "pep440-order") => order::replay("pep440", rest),
        ("record", "semver-order") => order::record("semver", rest),
        ("record", "pep440-order") => order::record("pep440", rest),
        ("replay", "pep440") => pep440::replay(rest),
        ("record", "pep440") => pep440::record(rest),
        ("replay", "semver") => semver::replay(rest),
        ("record", "semver") => semver::record(rest),
        _ => {
            eprintln!("unknown command {} {}", args[1], args[2]);
            std::process::exit(2);
        }
    }
}
