//! C16: Sanitizer::sanitize against the Sanitizer specification.
use std::io::Write;

use rand::rngs::StdRng;
use rand::{Rng, SeedableRng};
use serde_json::{Value, json};
use zerv::utils::sanitize::Sanitizer;

use crate::wire::*;

fn mk(cfg: &Value) -> Sanitizer {
    let sep = cfg["sep"].as_i64().unwrap();
    let sep_s = if sep == 0 { None } else { Some(char::from_u32(sep as u32).unwrap().to_string()) };
    let max = cfg["max"].as_i64().unwrap();
    Sanitizer::str(
        sep_s.as_deref(),
        cfg["lower"].as_bool().unwrap(),
        cfg["keep"].as_bool().unwrap(),
        if max < 0 { None } else { Some(max as usize) },
    )
}

fn key_for(input: &str, cfg: &Value, panicked: bool) -> &'static str {
    if panicked {
        "C16:panic"
    } else if !input.is_ascii() {
        "C16:non-ascii-input"
    } else if cfg["max"].as_i64().unwrap() >= 0 {
        "C16:max-length"
    } else {
        "C16:ascii-unbounded"
    }
}

pub fn replay(args: &[String]) {
    let path = &args[0];
    let cfgs = tlc_lines(path, "CFGS");
    let cfgs = arr(&cfgs[0]);
    let sans: Vec<Sanitizer> = cfgs.iter().map(mk).collect();
    let mut rep = Report::new("sanitizer");
    for case in tlc_lines(path, "REPLAY") {
        let input = cps(&case["s"]);
        let acc = arr(&case["acc"]);
        let mut nontrivial = false;
        for (i, san) in sans.iter().enumerate() {
            rep.evaluations += 1;
            let accepted: Vec<String> = arr(&acc[i]).iter().map(cps).collect();
            if accepted.iter().any(|a| *a != input) {
                nontrivial = true;
            }
            let obs = guarded(|| {
                let o = san.sanitize(&input);
                let o2 = san.sanitize(&o);
                (o, o2)
            });
            match obs {
                Err(msg) => rep.mismatch(
                    key_for(&input, &cfgs[i], true),
                    json!({"in": input, "cfg": cfgs[i], "expected_any_of": accepted, "observed": {"panic": msg}}),
                ),
                Ok((o, o2)) => {
                    if !accepted.contains(&o) {
                        rep.mismatch(
                            key_for(&input, &cfgs[i], false),
                            json!({"in": input, "cfg": cfgs[i], "expected_any_of": accepted, "observed": o}),
                        );
                    } else if o2 != o {
                        rep.mismatch(
                            key_for(&input, &cfgs[i], false),
                            json!({"in": input, "cfg": cfgs[i], "expected": "idempotent", "observed": o, "again": o2}),
                        );
                    }
                }
            }
        }
        // the integer sanitiser
        rep.evaluations += 1;
        let want = cps(&case["uint"]);
        match guarded(|| Sanitizer::uint().sanitize(&input)) {
            Ok(o) if o == want => {}
            Ok(o) => {
                // surrounding white space is outside the statement ("purely numeric input")
                if input.trim() == input {
                    rep.mismatch("C16:uint", json!({"in": input, "expected": want, "observed": o}));
                }
            }
            Err(msg) => rep.mismatch("C16:panic", json!({"in": input, "uint": true, "observed": {"panic": msg}})),
        }
        if nontrivial {
            rep.nontrivial += 1;
        }
        if rep.evaluations % 9973 < (sans.len() as u64 + 1) {
            rep.sample(json!({"in": input, "acceptable": acc}));
        }
    }
    rep.print();
}

/// pools chosen to hurt: non-ASCII letters and digits, characters whose lower-case form
/// contains ASCII, combining marks, emoji, NUL, all ASCII punctuation
const POOL: &[char] = &[
    'a', 'b', 'Z', 'Q', 'k', 'K', '0', '0', '1', '7', '9', '.', '-', '_', ' ', '/', '+', '!', '@', '#', '~',
    '\t', '\n', '\0', 'é', 'ü', 'ß', 'Ω', 'ж', '中', '日', '٢', '۵', '९', '\u{212A}', '\u{0130}',
    '\u{017F}', '\u{0301}', '\u{200B}', '😀', '𝟘', 'Ⅷ', '²', '½',
    // code points whose LOW BYTE is an ASCII letter or digit (U+0141 -> 'A', U+0159 -> 'Y', U+6D4B -> 'K', U+0130 -> '0')
    'Ł', 'ř', '测',
];

/// a long digit run (around and beyond the u32 / u64 / u128 boundaries), often with leading zeros
pub fn long_digits(rng: &mut StdRng) -> String {
    let zeros = [0, 0, 1, 2, 5][rng.gen_range(0..5)];
    let len = [9, 10, 11, 19, 20, 21, 25, 39, 40][rng.gen_range(0..9)];
    let mut s = "0".repeat(zeros);
    for i in 0..len {
        s.push(char::from(b'0' + if i == 0 { rng.gen_range(1..10) } else { rng.gen_range(0..10) }));
    }
    s
}

pub fn random_text(rng: &mut StdRng, max: usize) -> String {
    let base = random_text_short(rng, max);
    if rng.gen_bool(0.12) {
        // splice a long digit run in, as its own segment or glued to its neighbours
        let cut = base.char_indices().map(|(i, _)| i).nth(rng.gen_range(0..=base.chars().count().min(8))).unwrap_or(base.len());
        let sep = ["", "/", ".", "-"][rng.gen_range(0..4)];
        format!("{}{}{}{}{}", &base[..cut], sep, long_digits(rng), sep, &base[cut..])
    } else {
        base
    }
}

fn random_text_short(rng: &mut StdRng, max: usize) -> String {
    let n = rng.gen_range(0..=max);
    (0..n)
        .map(|_| {
            if rng.gen_bool(0.05) {
                // any scalar value
                loop {
                    if let Some(c) = char::from_u32(rng.gen_range(0..0x11_0000)) {
                        break c;
                    }
                }
            } else {
                POOL[rng.gen_range(0..POOL.len())]
            }
        })
        .collect()
}

pub fn record(args: &[String]) {
    let seed: u64 = args[0].parse().unwrap();
    let n: usize = args[1].parse().unwrap();
    let mut out = std::io::BufWriter::new(std::fs::File::create(&args[2]).unwrap());
    let mut rng = StdRng::seed_from_u64(seed);
    let seps = [46, 45, 95, 46, 45, 0];
    for i in 0..n {
        let input = random_text(&mut rng, 40);
        if i % 10 == 9 {
            let obs = guarded(|| Sanitizer::uint().sanitize(&input));
            let ev = match obs {
                Ok(o) => json!({"k": "uint", "in": to_cps(&input), "panic": false, "out": to_cps(&o)}),
                Err(_) => json!({"k": "uint", "in": to_cps(&input), "panic": true, "out": []}),
            };
            writeln!(out, "{ev}").unwrap();
            continue;
        }
        let max: i64 = if rng.gen_bool(0.5) { -1 } else { rng.gen_range(0..30) };
        let cfg = json!({"sep": seps[rng.gen_range(0..seps.len())], "lower": rng.gen_bool(0.5),
                         "keep": rng.gen_bool(0.3), "max": max});
        let san = mk(&cfg);
        let obs = guarded(|| {
            let o = san.sanitize(&input);
            let o2 = san.sanitize(&o);
            (o, o2)
        });
        let ev = match obs {
            Ok((o, o2)) => json!({"k": "san", "in": to_cps(&input), "cfg": cfg, "panic": false,
                                  "out": to_cps(&o), "out2": to_cps(&o2)}),
            Err(_) => json!({"k": "san", "in": to_cps(&input), "cfg": cfg, "panic": true, "out": [], "out2": []}),
        };
        writeln!(out, "{ev}").unwrap();
    }
    out.flush().unwrap();
    println!("{}", json!({"module": "sanitizer", "events": n}));
}
