//! C14: the real binary under varied environments (TZ, locale, cwd, unrelated variables, repeats,
//! separate processes).  Every run is logged with an input id; Trace_Env keeps a memo per input.
use std::io::Write;

use rand::rngs::StdRng;
use rand::{Rng, SeedableRng};
use serde_json::{Value, json};

use crate::gitrepo::Repo;
use crate::proc::run_bin;
use crate::wire::*;

struct Input {
    args: Vec<String>,
    stdin: Option<Vec<u8>>,
    inst: Option<Value>,      // a calendar instant whose UTC date must lead the output
    relative_c: Option<String>,
    nomask: bool,             // a clean checkout exactly at its tag: no wall-clock value is documented, none is masked
}

const ANCHORS: &[(u64, u32, u32, u32, u32, u32)] = &[(19782, 2024, 2, 29, 3, 60), (47541, 2100, 3, 1, 0, 60), (10957, 2000, 1, 1, 5, 1),
    (365, 1971, 1, 1, 4, 1), (19723, 2024, 1, 1, 0, 1), (19722, 2023, 12, 31, 6, 365), (20088, 2024, 12, 31, 1, 366)];

fn s(x: &str) -> String { x.to_string() }

fn inputs(repos: &[Repo]) -> Vec<Input> {
    let mut v = vec![];
    // date-derived components within +-14 h of day / month / year boundaries
    for (day, y, m, d, wd, yd) in ANCHORS {
        for sod in [0u64, 1, 3599, 36000, 39600, 50400, 86399] {
            let ts = (day * 86400 + sod).to_string();
            let inst = json!({"c": {"day": day, "y": y, "m": m, "d": d, "wd": wd, "yd": yd}, "sod": sod});
            for schema in ["calver-base", "calver"] {
                v.push(Input { args: vec![s("version"), s("--source"), s("none"), s("--tag-version"), s("1.2.3"), s("--schema"), s(schema), s("--bumped-timestamp"), ts.clone()],
                               stdin: None, inst: Some(inst.clone()), relative_c: None, nomask: false });
            }
            v.push(Input { args: vec![s("version"), s("--source"), s("none"), s("--tag-version"), s("1.2.3"), s("--bumped-timestamp"), ts.clone(), s("--output-template"),
                                      s("{{ format_timestamp(value=bumped_timestamp, format=\"%Y.%-m.%-d\") }}-{{ format_timestamp(value=bumped_timestamp, format=\"%H%M%S %j\") }} {{ format_timestamp(value=bumped_timestamp) }} {{ format_timestamp(value=bumped_timestamp, format=\"compact_datetime\") }}")],
                           stdin: None, inst: Some(inst.clone()), relative_c: None, nomask: false });
            v.push(Input { args: vec![s("version"), s("--source"), s("none"), s("--tag-version"), s("1.2.3"), s("--bumped-timestamp"), ts.clone(), s("--schema-ron"),
                                      s("(core:[var(ts(\"YYYY\")),var(ts(\"MM\")),var(ts(\"DD\"))],extra_core:[],build:[var(ts(\"0H\")),var(ts(\"WW\")),var(ts(\"compact_datetime\"))])")],
                           stdin: None, inst: Some(inst), relative_c: None, nomask: false });
        }
    }
    // the branch hash in every process; flow; sanitising of non-ASCII text; sorting-sensitive output
    for b in ["main", "feature/x", "Ünï/çødé", "release/2", "ǅ-titlecase", "i̇stanbul/İ"] {
        for l in [1, 5, 10] {
            v.push(Input { args: vec![s("flow"), s("--source"), s("none"), s("--tag-version"), s("1.0.0"), s("--distance"), s("2"), s("--bumped-branch"), s(b), s("--hash-branch-len"), l.to_string()],
                           stdin: None, inst: None, relative_c: None, nomask: false });
        }
        v.push(Input { args: vec![s("version"), s("--source"), s("none"), s("--tag-version"), s("1.0.0"), s("--bumped-branch"), s(b), s("--output-template"),
                                  s("{{ hash(value=bumped_branch, length=12) }} {{ hash_int(value=bumped_branch, length=9) }} {{ sanitize(value=bumped_branch, preset=\"pep440\") }} {{ bumped_branch | upper }}")],
                       stdin: None, inst: None, relative_c: None, nomask: false });
        v.push(Input { args: vec![s("version"), s("--source"), s("none"), s("--tag-version"), s("1.0.0"), s("--bumped-branch"), s(b), s("--schema"), s("standard-context"), s("--distance"), s("1"), s("--output-format"), s("pep440")],
                       stdin: None, inst: None, relative_c: None, nomask: false });
    }
    let ron = "(schema:(core:[var(Major),var(Minor),var(Patch)],extra_core:[var(Epoch),var(PreRelease),var(Post),var(Dev)],build:[var(BumpedBranch),var(custom(\"k\"))]),vars:(major:Some(1),minor:Some(2),patch:Some(3),post:Some(4),bumped_branch:Some(\"Größe/İ\"),custom:{\"k\":\"ÄÖÜ\"}))";
    for fmt in ["semver", "pep440", "zerv"] {
        v.push(Input { args: vec![s("version"), s("--source"), s("stdin"), s("--output-format"), s(fmt)], stdin: Some(ron.as_bytes().to_vec()), inst: None, relative_c: None, nomask: false });
    }
    for ver in ["1.2.3-alpha.1+b", "1!2.0rc1.post2.dev3+Loc.AL", "v1.0.0-RC.1"] {
        v.push(Input { args: vec![s("render"), s(ver), s("--output-format"), s("pep440")], stdin: None, inst: None, relative_c: None, nomask: false });
        v.push(Input { args: vec![s("check"), s(ver)], stdin: None, inst: None, relative_c: None, nomask: false });
    }
    // git repositories addressed with -C (absolute path) from different working directories
    for (ri, r) in repos.iter().enumerate() {
        let first = v.len();
        let at_tag = CLEAN_AT_TAG.contains(&ri);
        for cmd in ["version", "flow"] {
            for fmt in ["semver", "zerv"] {
                v.push(Input { args: vec![s(cmd), s("-C"), r.dir.display().to_string(), s("--output-format"), s(fmt)], stdin: None, inst: None, relative_c: None, nomask: false });
            }
        }
        for ifmt in ["semver", "pep440"] {
            v.push(Input { args: vec![s("version"), s("-C"), r.dir.display().to_string(), s("--input-format"), s(ifmt), s("--output-format"), s("zerv")], stdin: None, inst: None, relative_c: None, nomask: false });
            v.push(Input { args: vec![s("version"), s("-C"), r.dir.display().to_string(), s("--input-format"), s(ifmt), s("--output-format"), s("pep440")], stdin: None, inst: None, relative_c: None, nomask: false });
        }
        // and by a path relative to the parent directory
        let name = r.dir.file_name().unwrap().to_string_lossy().to_string();
        v.push(Input { args: vec![s("version"), s("-C"), name, s("--schema"), s("calver-context")], stdin: None, inst: None, relative_c: Some(r.dir.parent().unwrap().display().to_string()), nomask: false });
        if at_tag {
            v.push(Input { args: vec![s("version"), s("-C"), r.dir.display().to_string(), s("--schema"), s("calver")], stdin: None, inst: None, relative_c: None, nomask: false });
            v.push(Input { args: vec![s("version"), s("-C"), r.dir.display().to_string(), s("--output-template"), s("{{ bumped_timestamp }} {{ last_timestamp }}")], stdin: None, inst: None, relative_c: None, nomask: false });
            for i in &mut v[first..] {
                i.nomask = true;
            }
        }
    }
    v
}

/// indices (in the order the recorder creates them) of the repositories that are clean and exactly at their tag
const CLEAN_AT_TAG: &[usize] = &[2, 3, 6];
const TZS: &[&str] = &["UTC", "Pacific/Kiritimati", "Pacific/Pago_Pago", "Asia/Kolkata"];
const LOCALES: &[&str] = &["C", "C.UTF-8", "de_DE.UTF-8", "tr_TR.UTF-8"];

pub fn record(args: &[String]) {
    crate::gitrepo::isolate_git_env();
    let seed: u64 = args[0].parse().unwrap();
    let per_input: usize = args[1].parse().unwrap();
    let mut repos = vec![];
    let mut a = Repo::new(0);
    a.apply("atag", &to_cps("v1.4.0")).unwrap();
    a.apply("commit", &json!([])).unwrap();
    repos.push(a);
    let mut b = Repo::new(1);
    b.apply("tag", &to_cps("2.0.0rc1")).unwrap();
    b.apply("branch", &json!("feature/é")).unwrap();
    b.apply("checkout", &json!("feature/é")).unwrap();
    b.apply("commit", &json!([])).unwrap();
    b.apply("commit", &json!([])).unwrap();
    repos.push(b);
    let mut c = Repo::new(2);
    c.apply("tag", &to_cps("v0.1.0")).unwrap();
    repos.push(c);
    // several tags of EQUAL precedence but different spelling on the tagged commit: which one is
    // reported must not depend on the process (hash seeds, directory order, ...)
    let mut d = Repo::new(0);
    for (i, tag) in ["1.2", "1.2.0", "v1.2.0", "1.2.0.0", "1.2.0+a", "v1.2.0+b", "1.1.9"].iter().enumerate() {
        d.apply(if i % 2 == 0 { "tag" } else { "atag" }, &to_cps(tag)).unwrap();
    }
    repos.push(d);
    let mut e = Repo::new(0);
    for tag in ["v1.0.0+a", "v1.0.0+b", "1.0.0", "v1.0.0", "1.0.0+c.1", "0.9.0"] {
        e.apply("tag", &to_cps(tag)).unwrap();
    }
    e.apply("commit", &json!([])).unwrap();
    repos.push(e);
    // a detached HEAD ahead of the tag (what CI runners check out)
    let mut g = Repo::new(0);
    g.apply("tag", &to_cps("v1.0.0")).unwrap();
    g.apply("commit", &json!([])).unwrap();
    g.apply("detach", &json!(2)).unwrap();
    repos.push(g);
    // a clean checkout at a tag whose commit was made at the Unix epoch itself (time 0)
    let mut f = Repo::new(3);
    f.apply("tag", &to_cps("v0.3.0")).unwrap();
    repos.push(f);
    // a long history: the version tag is 130 commits behind HEAD and every other commit carries a
    // non-version tag (what git prints for it is long: anything that caps, pages or abbreviates output shows)
    let mut l = Repo::new(0);
    l.apply("tag", &to_cps("v1.2.3")).unwrap();
    for i in 0..130 {
        l.apply("commit", &json!([])).unwrap();
        if i % 2 == 0 {
            let _ = l.git(&["tag", &format!("build-{i}")], None);
        }
    }
    repos.push(l);
    let ins = inputs(&repos);
    let other = std::env::temp_dir().join(format!("zv-cwd-{}", std::process::id()));
    std::fs::create_dir_all(&other).unwrap();
    let jobs: Vec<(usize, usize)> = (0..ins.len()).flat_map(|i| (0..per_input).map(move |j| (i, j))).collect();
    let events = par_map(&jobs, |(i, j)| {
        let mut rng = StdRng::seed_from_u64(seed.wrapping_mul(31337).wrapping_add((*i * 1000 + *j) as u64));
        let inp = &ins[*i];
        // the first two runs of every input are the plain environment twice (repeatability)
        let (tz, loc) = if *j < 2 { ("UTC", "C") } else { (TZS[rng.gen_range(0..TZS.len())], LOCALES[rng.gen_range(0..LOCALES.len())]) };
        let mut env: Vec<(String, String)> = vec![("TZ".into(), tz.into()), ("LANG".into(), loc.into()), ("LC_ALL".into(), loc.into())];
        if *j == 2 {
            // the third run of every input: debug logging on, nothing else changed
            env.push(("RUST_LOG".into(), "debug".into()));
        } else if *j == 3 {
            // the fourth run: a stale PWD / OLDPWD naming another existing directory (what chdir-then-exec leaves behind)
            env.push(("PWD".into(), std::env::temp_dir().display().to_string()));
            env.push(("OLDPWD".into(), "/".into()));
        } else if *j >= 2 && rng.gen_bool(0.5) {
            for (k, val) in [("RUST_BACKTRACE", "1"), ("NO_COLOR", "1"), ("HOME", "/nonexistent"), ("PAGER", "cat"), ("COLUMNS", "20"), ("ZERV_SOMETHING", "x"), ("SOURCE_DATE_EPOCH", "1"),
                           // logging goes to stderr: turning it up, down or off must not change stdout
                           ("RUST_LOG", ["trace", "zerv=debug", "off", "garbage=,,"][rng.gen_range(0..4)]), ("ZERV_FORCE_RUST_LOG_OFF", "1"),
                           ("ZERV_TEST_NATIVE_GIT", "1"), ("ZERV_TEST_DOCKER", "0"), ("GIT_PAGER", "cat"), ("LESS", "-R"), ("TERM", "dumb"), ("CLICOLOR_FORCE", "1"),
                           // what CI runners export: none of it is an input of zerv
                           ("CI", "true"), ("GITHUB_ACTIONS", "true"), ("GITHUB_REF_NAME", "develop"), ("GITHUB_REF", "refs/heads/release/3"), ("GITHUB_HEAD_REF", "feature/x"),
                           ("GITHUB_SHA", "0123456789abcdef0123456789abcdef01234567"), ("CI_COMMIT_REF_NAME", "release/3"), ("CI_COMMIT_TAG", "v9.9.9"), ("CI_COMMIT_SHA", "deadbeef"),
                           ("GIT_BRANCH", "origin/feature/login"), ("GIT_COMMIT", "deadbeef"), ("BRANCH_NAME", "main"), ("BUILD_NUMBER", "77"), ("TRAVIS_BRANCH", "develop"), ("TRAVIS_TAG", "v8.0.0"),
                           ("BITBUCKET_BRANCH", "hotfix/1"), ("VERSION", "7.7.7"), ("ZERV_VERSION", "7.7.7"), ("USER", "somebody"), ("HOSTNAME", "builder-17"), ("PWD", "/nonexistent")] {
                if rng.gen_bool(0.3) {
                    env.push((k.into(), val.into()));
                }
            }
        }
        let cwd: Option<std::path::PathBuf> = match &inp.relative_c {
            Some(parent) => Some(parent.into()),
            None => match rng.gen_range(0..3) { 0 => None, 1 => Some(other.clone()), _ => Some("/".into()) },
        };
        let has_log = env.iter().any(|(k, _)| k == "RUST_LOG");
        let r = run_bin(&inp.args, inp.stdin.as_deref(), &env, if has_log { &[] } else { &["RUST_LOG"] }, cwd.as_deref());
        let out = String::from_utf8_lossy(&r.stdout).to_string();
        let masked = if inp.nomask { out.clone() } else { mask_now_text(&out) };
        json!({"k": "run", "input": i + 1, "argv": inp.args, "tz": tz, "locale": loc, "cwd": cwd.map(|c| c.display().to_string()).unwrap_or_default(),
               "extra_env": env.len() - 3, "status": r.status, "signal": r.signal, "out": to_cps(&masked.chars().take(1500).collect::<String>()),
               "has_inst": inp.inst.is_some(), "inst": inp.inst.clone().unwrap_or(json!({"c": {"day": 0, "y": 1970, "m": 1, "d": 1, "wd": 3, "yd": 1}, "sod": 0}))})
    });
    let _ = std::fs::remove_dir_all(&other);
    let mut events = events;
    // "a function of the repository state", not of earlier runs: a repository is observed, its tags are changed
    // without touching a commit, and it is observed again - next to a fresh clone in the same state
    {
        let mut h = Repo::new(0);
        h.apply("tag", &to_cps("v1.0.0-rc.1")).unwrap();
        h.apply("commit", &json!([])).unwrap();
        let base = ins.len();
        let run = |dir: &std::path::Path, fmt: &str| {
            let a: Vec<String> = vec![s("version"), s("-C"), dir.display().to_string(), s("--output-format"), s(fmt), s("--schema"), s("standard-base-prerelease-post")];
            let r = run_bin(&a, None, &[("TZ".to_string(), "UTC".to_string())], &["RUST_LOG"], Some(std::path::Path::new("/")));
            (a, r)
        };
        let mut push = |id: usize, a: Vec<String>, r: crate::proc::RunObs| {
            events.push(json!({"k": "run", "input": id, "argv": a, "tz": "UTC", "locale": "C", "cwd": "/", "extra_env": 0, "status": r.status, "signal": r.signal,
                               "out": to_cps(&String::from_utf8_lossy(&r.stdout)), "has_inst": false,
                               "inst": {"c": {"day": 0, "y": 1970, "m": 1, "d": 1, "wd": 3, "yd": 1}, "sod": 0}}));
        };
        for (k, fmt) in ["semver", "pep440"].iter().enumerate() {
            let (a, r) = run(&h.dir, fmt);
            push(base + 1 + k, a, r);                          // state 1: only the release candidate tag
        }
        let root = h.hashes[0].clone();
        let _ = h.git(&["tag", "v1.0.0", &root], None);          // state 2: the release is tagged on the same commit
        let clone = h.dir.with_extension("clone");
        let _ = std::fs::remove_dir_all(&clone);
        let _ = h.git(&["clone", "-q", &h.dir.display().to_string(), &clone.display().to_string()], None);
        for (k, fmt) in ["semver", "pep440"].iter().enumerate() {
            for dir in [&h.dir, &clone, &h.dir] {
                let (a, r) = run(dir, fmt);
                push(base + 3 + k, a, r);
            }
        }
        let _ = std::fs::remove_dir_all(&clone);
    }
    let mut out = std::io::BufWriter::new(std::fs::File::create(&args[2]).unwrap());
    for e in &events {
        writeln!(out, "{e}").unwrap();
    }
    out.flush().unwrap();
    println!("{}", json!({"module": "env", "events": events.len(), "inputs": ins.len()}));
}

fn mask_now_text(text: &str) -> String {
    let now = std::time::SystemTime::now().duration_since(std::time::UNIX_EPOCH).unwrap().as_secs();
    let mut out = String::new();
    let mut digits = String::new();
    let flush = |digits: &mut String, out: &mut String| {
        if !digits.is_empty() {
            match digits.parse::<u64>() {
                Ok(n) if n.saturating_add(600) >= now && n <= now + 60 => out.push_str("<NOW>"),
                _ => out.push_str(digits),
            }
            digits.clear();
        }
    };
    for c in text.chars() {
        if c.is_ascii_digit() { digits.push(c) } else { flush(&mut digits, &mut out); out.push(c) }
    }
    flush(&mut digits, &mut out);
    out
}
