//! C07: `zerv render` conversions against Convert.tla (canonical shape, boundary numerals)
//! and the grammar / order modules (arbitrary accepted PEP 440 and SemVer strings).
use std::io::Write;

use rand::rngs::StdRng;
use rand::{Rng, SeedableRng};
use serde_json::{Value, json};

use crate::cli::{Outcome, argv, run_cli};
use crate::wire::*;

/// one conversion through the in-process `zerv render`
pub fn conv(s: &str, from: &str, to: &str) -> Outcome {
    run_cli(&argv(&["render", s, "-f", from, "--output-format", to]), None)
}

/// the numerals of a text as a multiset (sorted): "no number silently replaced by another"
fn digit_runs(s: &str) -> Vec<String> {
    let mut v: Vec<String> = s.split(|c: char| !c.is_ascii_digit()).filter(|t| !t.is_empty()).map(|t| t.to_string()).collect();
    v.sort();
    v
}

fn res(o: &Outcome) -> Value {
    match o {
        Outcome::Ok(s) => json!({"ok": true, "panic": false, "s": to_cps(s)}),
        Outcome::Err(_) => json!({"ok": false, "panic": false, "s": []}),
        Outcome::Panic(_) => json!({"ok": false, "panic": true, "s": []}),
    }
}

/// a SemVer pre-release label directly followed by a number beyond u64, rendered as PEP 440
fn prerelease_beyond_u64(input: &str, from: &str, to: &str) -> bool {
    if from != "semver" || to != "pep440" {
        return false;
    }
    let Some((_, pre)) = input.split_once('-') else { return false };
    let pre = pre.split('+').next().unwrap();
    let ids: Vec<&str> = pre.split('.').collect();
    ids.windows(2).any(|w| {
        matches!(w[0], "alpha" | "beta" | "rc") && w[1].chars().all(|c| c.is_ascii_digit()) && w[1].parse::<u64>().is_err()
    })
}

fn key(representable: bool, o: &Outcome) -> &'static str {
    match o {
        Outcome::Panic(_) => "C07:panic",
        _ if representable => "C07:conversion",
        _ => "C07:unrepresentable-number-changed",
    }
}

pub fn replay(args: &[String]) {
    let mut rep = Report::new("convert");
    for case in tlc_lines(&args[0], "REPLAY") {
        let sv = cps(&case["sv"]);
        let pep = cps(&case["pep"]);
        let svok = case["svok"].as_bool().unwrap();
        let pepok = case["pepok"].as_bool().unwrap();
        if svok && pepok {
            rep.nontrivial += 1;
        }
        if rep.evaluations % 20011 < 8 {
            rep.sample(json!({"semver": sv, "pep440": pep, "fits_u64": svok, "fits_u32": pepok}));
        }
        // (input, from, to, expected text, representable?)
        let plan = [(&sv, "semver", "semver", &sv, svok), (&sv, "semver", "pep440", &pep, pepok),
                    (&pep, "pep440", "semver", &sv, pepok), (&pep, "pep440", "pep440", &pep, pepok)];
        for (input, from, to, want, representable) in plan {
            rep.evaluations += 1;
            let o = conv(input, from, to);
            let good = match (&o, representable) {
                (Outcome::Ok(s), true) => s == want,
                (Outcome::Ok(s), false) => digit_runs(s) == digit_runs(want),
                (Outcome::Err(_), false) => true,
                _ => false,
            };
            if !good {
                let k = if !representable && prerelease_beyond_u64(input, from, to) && !matches!(o, Outcome::Panic(_)) {
                    "C07:prerelease-number-beyond-u64-to-pep440"
                } else {
                    key(representable, &o)
                };
                rep.mismatch(k, json!({"input": input, "from": from, "to": to,
                    "expected": if representable { json!(want) } else { json!(format!("rejected, or every numeral of {want} preserved")) },
                    "observed": {"kind": o.tag(), "text": o.text()}}));
                continue;
            }
            // every rendering is a fixed point of re-conversion in its own format
            if let Outcome::Ok(s) = &o {
                rep.evaluations += 1;
                let again = conv(s, to, to);
                if again.ok() != Some(s.as_str()) {
                    rep.mismatch(key(true, &again), json!({"input": s, "from": to, "to": to, "expected": "fixed point of re-conversion",
                                                           "observed": {"kind": again.tag(), "text": again.text()}}));
                }
                // and SemVer -> PEP 440 -> SemVer comes back to the original
                if from == "semver" && to == "pep440" && representable {
                    rep.evaluations += 1;
                    let back = conv(s, "pep440", "semver");
                    if back.ok() != Some(sv.as_str()) {
                        rep.mismatch(key(true, &back), json!({"input": s, "from": "pep440", "to": "semver", "expected": sv,
                                                              "observed": {"kind": back.tag(), "text": back.text()}}));
                    }
                }
            }
        }
    }
    rep.print();
}

pub fn record(args: &[String]) {
    let seed: u64 = args[0].parse().unwrap();
    let n: usize = args[1].parse().unwrap();
    let mut out = std::io::BufWriter::new(std::fs::File::create(&args[2]).unwrap());
    let mut rng = StdRng::seed_from_u64(seed);
    for i in 0..n {
        if i % 7 == 6 {
            // format auto-detection (beyond the listed properties): `render -f auto` and `check`
            // without --format, next to the explicit-format results they must agree with
            const BOTH: &[&str] = &["1.2.3", "v1.2.3", "1.2.3-1", "1.2.3-alpha.1", "1.2.3-rc", "1.2.3-post.4", "1.2.3-dev", "1.2.3+abc", "1.2.3-a-1",
                                    "1.2.3-ALPHA.1", "0.0.0", "1.2.3-0", "1.2.3-c1", "1.2.3-pre", "1.2.3-r5", "1.2.3-beta+l.01", "V1.2.3", "1.2.3-alpha.01"];
            let s = match rng.gen_range(0..4) {
                0 => BOTH[rng.gen_range(0..BOTH.len())].to_string(),
                1 => crate::semver::random_version(&mut rng),
                2 => crate::pep440::random_version(&mut rng),
                _ => { let t = crate::semver::random_version(&mut rng); t.replace(|c: char| !c.is_ascii(), "").trim().to_string() }
            };
            let chk = |fmt: Option<&str>| {
                let mut a = vec!["check", s.as_str()];
                if let Some(f) = fmt { a.push("--format"); a.push(f); }
                let o = run_cli(&argv(&a), None);
                let lines: Vec<Value> = o.ok().map(|t| t.split('\n').map(to_cps).collect()).unwrap_or_default();
                json!({"ok": o.ok().is_some(), "panic": matches!(o, Outcome::Panic(_)), "lines": lines})
            };
            writeln!(out, "{}", json!({"k": "auto", "s": to_cps(&s),
                "au_sv": res(&conv(&s, "auto", "semver")), "au_pp": res(&conv(&s, "auto", "pep440")),
                "sv_sv": res(&conv(&s, "semver", "semver")), "sv_pp": res(&conv(&s, "semver", "pep440")),
                "pp_sv": res(&conv(&s, "pep440", "semver")), "pp_pp": res(&conv(&s, "pep440", "pep440")),
                "chk": chk(None), "chk_sv": chk(Some("semver")), "chk_pp": chk(Some("pep440"))})).unwrap();
        } else if i % 2 == 0 {
            // an (often) accepted PEP 440 string in a random spelling
            let s = crate::pep440::random_version(&mut rng);
            let sv = conv(&s, "pep440", "semver");
            let sv2 = sv.ok().map(|t| conv(t, "semver", "semver")).unwrap_or(Outcome::Err(String::new()));
            let back = sv.ok().map(|t| conv(t, "semver", "pep440")).unwrap_or(Outcome::Err(String::new()));
            let pp = conv(&s, "pep440", "pep440");
            let pp2 = pp.ok().map(|t| conv(t, "pep440", "pep440")).unwrap_or(Outcome::Err(String::new()));
            writeln!(out, "{}", json!({"k": "pep", "s": to_cps(&s), "sv": res(&sv), "sv2": res(&sv2), "back": res(&back),
                                        "pp": res(&pp), "pp2": res(&pp2)})).unwrap();
        } else {
            // an (often) accepted SemVer string rendered to PEP 440 and re-converted
            let s = if i % 4 == 1 {
                // label-heavy identifier lists: the territory of the PreReleaseProcessor
                let pool = ["epoch", "alpha", "beta", "rc", "post", "dev", "x", "0", "1", "5", "Alpha", "POST", "pre", "c"];
                let k = rng.gen_range(1..7);
                let ids: Vec<&str> = (0..k).map(|_| pool[rng.gen_range(0..pool.len())]).collect();
                format!("1.0.{}-{}", rng.gen_range(0..3), ids.join("."))
            } else {
                crate::semver::random_version(&mut rng)
            };
            let pep = conv(&s, "semver", "pep440");
            let pep2 = pep.ok().map(|t| conv(t, "pep440", "pep440")).unwrap_or(Outcome::Err(String::new()));
            let ss = conv(&s, "semver", "semver");
            writeln!(out, "{}", json!({"k": "sv", "s": to_cps(&s), "pep": res(&pep), "pep2": res(&pep2), "ss": res(&ss)})).unwrap();
        }
        let _ = rng.gen_range(0..2);
    }
    out.flush().unwrap();
    println!("{}", json!({"module": "convert", "events": n}));
}

/// ToZerv.tla: `zerv render` of arbitrary SemVer identifier lists, both output formats
pub fn replay_tozerv(args: &[String]) {
    let from = args.get(1).map(|s| s.as_str()).unwrap_or("semver").to_string();
    let mut rep = Report::new("tozerv");
    for case in tlc_lines(&args[0], "REPLAY") {
        let s = cps(&case["s"]);
        if case.get("canonical").or(case.get("short")).and_then(|v| v.as_bool()).unwrap_or(false) {
            rep.nontrivial += 1;
        }
        for (to, want) in [("semver", cps(&case["semver"])), ("pep440", cps(&case["pep440"]))] {
            rep.evaluations += 1;
            let o = conv(&s, &from, to);
            if o.ok() != Some(want.as_str()) {
                let k = if matches!(o, Outcome::Panic(_)) { "C07:panic" } else if from == "semver" { "C07:semver-to-zerv" } else { "C07:pep440-to-zerv" };
                rep.mismatch(k, json!({"input": s, "to": to, "expected": want, "observed": {"kind": o.tag(), "text": o.text()}}));
            }
            if rep.evaluations % 6007 < 2 {
                rep.sample(json!({"input": s, "to": to, "expected": want}));
            }
        }
    }
    rep.print();
}
