//! C09: PEP440::from_str / to_string / `check --format pep440` against Pep440Grammar.
use std::io::Write;
use std::str::FromStr;

use rand::rngs::StdRng;
use rand::{Rng, SeedableRng};
use serde_json::json;
use zerv::cli::{CheckArgs, run_check_command};
use zerv::version::pep440::PEP440;

use crate::wire::*;

pub struct Obs {
    pub ok: bool,
    pub printed: String,
    pub printed2: String,
    pub eq: bool,
    pub check_ok: bool,
    pub check_norm: String,
}

pub fn observe(s: &str) -> Result<Obs, String> {
    let s1 = s.to_string();
    guarded(move || {
        let chk = run_check_command(CheckArgs { version: s1.clone(), format: Some("pep440".to_string()) });
        let (check_ok, check_norm) = match chk {
            Ok(text) => {
                let norm = match text.find("(normalized: ") {
                    Some(i) => text[i + 13..].trim_end_matches(')').to_string(),
                    None => s1.clone(),
                };
                (true, norm)
            }
            Err(_) => (false, String::new()),
        };
        match PEP440::from_str(&s1) {
            Ok(v) => {
                let printed = v.to_string();
                let (printed2, eq) = match PEP440::from_str(&printed) {
                    Ok(v2) => (v2.to_string(), v2 == v),
                    Err(_) => ("<rejected>".to_string(), false),
                };
                Obs { ok: true, printed, printed2, eq, check_ok, check_norm }
            }
            Err(_) => Obs { ok: false, printed: String::new(), printed2: String::new(), eq: false, check_ok, check_norm },
        }
    })
}

fn key_for(s: &str) -> &'static str {
    if !s.is_ascii() {
        "C09:non-ascii-input"
    } else if s.split(|c: char| !c.is_ascii_digit()).any(|t| t.trim_start_matches('0').len() >= 10) {
        "C09:number-beyond-u32"
    } else {
        "C09:ascii"
    }
}

pub fn replay(args: &[String]) {
    let mut rep = Report::new("pep440");
    for case in tlc_lines(&args[0], "REPLAY") {
        let s = cps(&case["s"]);
        let ok = case["ok"].as_bool().unwrap();
        let normal = cps(&case["normal"]);
        rep.evaluations += 1;
        if ok {
            rep.nontrivial += 1;
            if rep.nontrivial % 50 == 1 {
                rep.sample(json!({"s": s, "accepted": ok, "normal": normal}));
            }
        }
        match observe(&s) {
            Err(msg) => rep.mismatch("C09:panic", json!({"s": s, "observed": {"panic": msg}})),
            Ok(o) => {
                let good = o.ok == ok
                    && o.check_ok == ok
                    && (!ok || (o.printed == normal && o.printed2 == normal && o.eq && o.check_norm == normal));
                if !good {
                    rep.mismatch(
                        key_for(&s),
                        json!({"s": s, "expected": {"accepted": ok, "normal": normal},
                               "observed": {"accepted": o.ok, "printed": o.printed, "reprinted": o.printed2,
                                            "equal_to_original": o.eq, "check": o.check_ok, "check_normal": o.check_norm}}),
                    );
                }
            }
        }
    }
    rep.print();
}

const NUMS: &[&str] = &["", "0", "1", "01", "10", "007", "3", "12", "0", "1", "2", "5", "100", "4294967295", "4294967296", "99999999999", "2024", "4294967294", "2147483647", "2147483648", "65536",
    "0000000000", "004294967295"];
const SEPS: &[&str] = &["", "", ".", "-", "_"];
const PRE: &[&str] = &["a", "alpha", "b", "beta", "c", "rc", "pre", "preview", "A", "Alpha", "BETA", "RC", "Rc", "pReView"];
const POST: &[&str] = &["post", "rev", "r", "POST", "Rev", "R"];
const DEV: &[&str] = &["dev", "DEV", "Dev"];
const LOCAL: &[&str] = &["a", "1", "01", "A.1", "a-b_c", "ubuntu.20.04", "0007", "ABC", "\u{212A}", "x..y", "4294967296", "a+b", ""];
const JUNK: &[char] = &[
    '0', '1', 'a', 'r', 'c', '.', '-', '_', '+', '!', 'v', 'V', ' ', '\t', '\n', '\0', '٢', 'é', 'ſ', '\u{212A}',
    '\u{0130}', 'p', 'o', 's', 't', 'd', 'e', 'b',
];

fn pick<'a>(rng: &mut StdRng, pool: &[&'a str]) -> &'a str {
    pool[rng.gen_range(0..pool.len())]
}

pub fn random_version(rng: &mut StdRng) -> String {
    let mut s = String::new();
    if rng.gen_bool(0.15) {
        s += pick(rng, &["v", "V"]);
    }
    if rng.gen_bool(0.25) {
        s += pick(rng, &["0", "1", "00", "2", "4294967296"]);
        s.push('!');
    }
    let n = rng.gen_range(1..5);
    let rel: Vec<&str> = (0..n).map(|_| pick(rng, &NUMS[1..])).collect();
    s += &rel.join(".");
    if rng.gen_bool(0.5) {
        s += pick(rng, SEPS);
        s += pick(rng, PRE);
        s += pick(rng, SEPS);
        s += pick(rng, NUMS);
    }
    if rng.gen_bool(0.4) {
        if rng.gen_bool(0.25) {
            s.push('-');
            s += pick(rng, &NUMS[1..]);
        } else {
            s += pick(rng, SEPS);
            s += pick(rng, POST);
            s += pick(rng, SEPS);
            s += pick(rng, NUMS);
        }
    }
    if rng.gen_bool(0.4) {
        s += pick(rng, SEPS);
        s += pick(rng, DEV);
        s += pick(rng, SEPS);
        s += pick(rng, NUMS);
    }
    if rng.gen_bool(0.4) {
        s.push('+');
        s += pick(rng, LOCAL);
    }
    let muts = if rng.gen_bool(0.6) { 0 } else { rng.gen_range(1..3) };
    let mut cs: Vec<char> = s.chars().collect();
    for _ in 0..muts {
        let c = JUNK[rng.gen_range(0..JUNK.len())];
        let pos = rng.gen_range(0..=cs.len());
        match rng.gen_range(0..3) {
            0 => cs.insert(pos, c),
            1 if !cs.is_empty() => {
                cs.remove(pos.min(cs.len() - 1));
            }
            _ if !cs.is_empty() => {
                let i = pos.min(cs.len() - 1);
                cs[i] = c;
            }
            _ => {}
        }
    }
    cs.into_iter().collect()
}

pub fn record(args: &[String]) {
    let seed: u64 = args[0].parse().unwrap();
    let n: usize = args[1].parse().unwrap();
    let mut out = std::io::BufWriter::new(std::fs::File::create(&args[2]).unwrap());
    let mut rng = StdRng::seed_from_u64(seed);
    for _ in 0..n {
        let s = random_version(&mut rng);
        let ev = match observe(&s) {
            Ok(o) => json!({"k": "pep440", "s": to_cps(&s), "panic": false, "ok": o.ok,
                            "printed": to_cps(&o.printed), "printed2": to_cps(&o.printed2), "eq": o.eq,
                            "check": o.check_ok, "check_norm": to_cps(&o.check_norm)}),
            Err(_) => json!({"k": "pep440", "s": to_cps(&s), "panic": true, "ok": false, "printed": [],
                             "printed2": [], "eq": false, "check": false, "check_norm": []}),
        };
        writeln!(out, "{ev}").unwrap();
    }
    out.flush().unwrap();
    println!("{}", json!({"module": "pep440", "events": n}));
}
