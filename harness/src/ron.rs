//! C12: Zerv RON as an interchange format.
//!  schema : every schema of MC_Schema as the stdin schema in effect - accepted iff ValidSchema;
//!           with --schema overriding it, never a reason for refusal
//!  record : objects with hostile text (quotes, backslashes, newlines, RON keywords, NUL, astral
//!           characters) and custom JSON of every shape - parse back to an identical object,
//!           re-emit byte-identically, render identically directly and piped; and certainly
//!           malformed documents (unbalanced, trailing garbage, empty) - refused without output
use std::io::Write;
use std::str::FromStr;

use rand::rngs::StdRng;
use rand::{Rng, SeedableRng};
use serde_json::{Value, json};
use zerv::version::pep440::PEP440;
use zerv::version::semver::SemVer;
use zerv::version::zerv::{Component, PreReleaseLabel, PreReleaseVar, Var, Zerv, ZervSchema, ZervVars};

use crate::cli::{Outcome, argv, run_cli};
use crate::wire::*;
use crate::zmodel::schema_ron;

pub fn replay_schema(args: &[String]) {
    let mut rep = Report::new("schema");
    let vars = "vars:(major:Some(1),minor:Some(2),patch:Some(3),epoch:Some(4),pre_release:Some((label:Rc,number:Some(5))),post:Some(6),dev:Some(7),distance:Some(8),bumped_timestamp:Some(1700000000))";
    for case in tlc_lines(&args[0], "REPLAY") {
        let sch = &case["sch"];
        let valid = case["valid"].as_bool().unwrap();
        let ron = format!("(schema:{},{vars})", schema_ron(sch));
        rep.evaluations += 1;
        if !valid {
            rep.nontrivial += 1;
        }
        if rep.evaluations % 2003 == 1 {
            rep.sample(json!({"schema": schema_ron(sch), "valid": valid}));
        }
        for fmt in ["semver", "pep440", "zerv"] {
            let o = run_cli(&argv(&["version", "--source", "stdin", "--output-format", fmt]), Some(&ron));
            let ok = match (&o, valid) {
                (Outcome::Ok(_), true) | (Outcome::Err(_), false) => true,
                _ => false,
            };
            if !ok {
                let key = if matches!(o, Outcome::Panic(_)) { "C12:panic" } else if valid { "C12:valid-schema-refused" } else { "C12:invalid-schema-rendered" };
                rep.mismatch(key, json!({"stdin": ron, "format": fmt, "expected": if valid { "accepted" } else { "refused, no output" },
                                         "observed": {"kind": o.tag(), "text": o.text()}}));
                break;
            }
        }
        // an invalid stdin schema that is not the schema in effect must not matter
        if !valid {
            rep.evaluations += 1;
            let o = run_cli(&argv(&["version", "--source", "stdin", "--schema", "standard-base-prerelease-post-dev", "--output-format", "semver"]), Some(&ron));
            if o.ok() != Some("1.2.3-epoch.4.rc.5.post.6.dev.7") {
                rep.mismatch("C12:overridden-schema-still-matters", json!({"stdin": ron, "observed": {"kind": o.tag(), "text": o.text()}}));
            }
        }
    }
    rep.print();
}

const NASTY: &[&str] = &["plain", "with \"double\" quotes", "single 'quote'", "back\\slash\\\\", "new\nline\r\n", "tab\t", "nul\u{0}byte",
    ")", "(", "),(", ",", "Some(1)", "None", "Some", "true", "()", "[]", "{}", "#", "//comment", "/* c */", "r#\"raw\"#", "é ü ñ", "日本語", "😀 astral 𝒳",
    "\u{feff}bom", "\u{2028}line-sep", "", " ", "  leading and trailing  ", "-", "0", "007", "1e9", "0x10", "a.b.c", "\u{202e}rtl"];

fn nasty(rng: &mut StdRng) -> String {
    NASTY[rng.gen_range(0..NASTY.len())].to_string()
}

fn random_json(rng: &mut StdRng, depth: u32) -> Value {
    match rng.gen_range(0..if depth == 0 { 6 } else { 8 }) {
        0 => json!(nasty(rng)),
        1 => json!(rng.gen_range(-5i64..1000)),
        2 => json!(rng.gen_bool(0.5)),
        3 => Value::Null,
        4 => json!(rng.gen_range(0.0..10.0f64)),
        5 => json!(u64::MAX - rng.gen_range(0..3)),
        6 => Value::Array((0..rng.gen_range(0..4)).map(|_| random_json(rng, depth - 1)).collect()),
        _ => {
            let mut m = serde_json::Map::new();
            for _ in 0..rng.gen_range(0..4) {
                let key = if rng.gen_bool(0.7) { ["k", "build_id", "a", "meta"][rng.gen_range(0..4)].to_string() } else { nasty(rng) };
                m.insert(key, random_json(rng, depth - 1));
            }
            Value::Object(m)
        }
    }
}

fn random_object(rng: &mut StdRng) -> Zerv {
    let opt_s = |rng: &mut StdRng| if rng.gen_bool(0.6) { Some(nasty(rng)) } else { None };
    let opt_n = |rng: &mut StdRng| if rng.gen_bool(0.6) { Some(match rng.gen_range(0..4) { 0 => 0, 1 => rng.gen_range(0..100), 2 => u32::MAX as u64, _ => u64::MAX - rng.gen_range(0..2) }) } else { None };
    let vars = ZervVars {
        major: opt_n(rng), minor: opt_n(rng), patch: opt_n(rng), epoch: opt_n(rng),
        // a pre-release with and without number (0 is a number, not "no number")
        pre_release: if rng.gen_bool(0.5) { Some(PreReleaseVar { label: [PreReleaseLabel::Alpha, PreReleaseLabel::Beta, PreReleaseLabel::Rc][rng.gen_range(0..3)],
                                                                  number: [None, Some(0), Some(1), Some(u32::MAX as u64)][rng.gen_range(0..4)] }) } else { None },
        post: opt_n(rng), dev: opt_n(rng),
        distance: opt_n(rng), dirty: if rng.gen_bool(0.3) { Some(false) } else { None },
        bumped_branch: opt_s(rng), bumped_commit_hash: if rng.gen_bool(0.5) { Some(["abcdef0", "g0123456789abcdef", ""][rng.gen_range(0..3)].to_string()) } else { None },
        bumped_timestamp: opt_n(rng).map(|n| n % 4_000_000_000), last_branch: opt_s(rng),
        last_commit_hash: if rng.gen_bool(0.3) { Some("g00ff00ff".into()) } else { None },
        last_timestamp: opt_n(rng).map(|n| n % 4_000_000_000), last_tag_version: opt_s(rng),
        custom: if rng.gen_bool(0.8) { let mut v = random_json(rng, 3); if !v.is_object() { v = json!({"k": v}); } v } else { json!({}) },
    };
    let mut build = vec![];
    for _ in 0..rng.gen_range(0..4) {
        build.push(match rng.gen_range(0..4) {
            0 => Component::Str(nasty(rng)),
            1 => Component::UInt(opt_n(rng).unwrap_or(3)),
            2 => Component::Var(Var::Custom(if rng.gen_bool(0.5) { "k".into() } else { nasty(rng) })),
            _ => Component::Var(Var::BumpedBranch),
        });
    }
    let schema = ZervSchema::new(vec![Component::Var(Var::Major), Component::Var(Var::Minor), Component::Var(Var::Patch)],
                                 vec![Component::Var(Var::Epoch), Component::Var(Var::PreRelease), Component::Var(Var::Post), Component::Str(nasty(rng))], build).unwrap();
    Zerv { schema, vars }
}

fn balanced(s: &str) -> bool {
    // parentheses / brackets / braces outside string literals, and closed string literals
    let mut stack = vec![];
    let mut in_str = false;
    let mut esc = false;
    for c in s.chars() {
        if in_str {
            if esc { esc = false } else if c == '\\' { esc = true } else if c == '"' { in_str = false }
            continue;
        }
        match c {
            '"' => in_str = true,
            '(' | '[' | '{' => stack.push(c),
            ')' | ']' | '}' => {
                let want = match c { ')' => '(', ']' => '[', _ => '{' };
                if stack.pop() != Some(want) { return false }
            }
            _ => {}
        }
    }
    stack.is_empty() && !in_str
}

pub fn record(args: &[String]) {
    let seed: u64 = args[0].parse().unwrap();
    let n: usize = args[1].parse().unwrap();
    let mut out = std::io::BufWriter::new(std::fs::File::create(&args[2]).unwrap());
    let mut rng = StdRng::seed_from_u64(seed);
    for i in 0..n {
        let z = random_object(&mut rng);
        let ron = z.to_string();
        if i % 3 == 2 {
            // a certainly malformed document made from a real one
            let (kind, doc) = match rng.gen_range(0..5) {
                0 => ("empty", "   \n".to_string()),
                1 => ("trailing-garbage", format!("{ron}{}", [")", "x", "(a:1)", "]", "\"", "Some(1)"][rng.gen_range(0..6)])),
                2 => ("two-documents", format!("{ron}\n{ron}")),
                _ => {
                    // cut somewhere: keep only cuts that leave the document unbalanced
                    let chars: Vec<char> = ron.chars().collect();
                    let cut = rng.gen_range(1..chars.len());
                    let d: String = chars[..cut].iter().collect();
                    if balanced(&d) { continue }
                    ("truncated", d)
                }
            };
            let o = run_cli(&argv(&["version", "--source", "stdin", "--output-format", "semver"]), Some(&doc));
            let lib_ok = Zerv::from_str(&doc).is_ok();
            writeln!(out, "{}", json!({"k": "malformed", "kind": kind, "outcome": o.tag(), "library_accepts": lib_ok,
                                        "doc": to_cps(&doc.chars().take(300).collect::<String>())})).unwrap();
            continue;
        }
        let parsed = Zerv::from_str(&ron);
        let same_object = parsed.as_ref().ok() == Some(&z);
        let same_bytes = parsed.as_ref().map(|p| p.to_string() == ron).unwrap_or(false);
        let zc = z.clone();
        let direct = guarded(move || (SemVer::from(zc.clone()).to_string(), PEP440::from(zc).to_string()));
        let piped_sv = run_cli(&argv(&["version", "--source", "stdin", "--output-format", "semver"]), Some(&ron));
        let piped_pep = run_cli(&argv(&["version", "--source", "stdin", "--output-format", "pep440"]), Some(&ron));
        let piped_tpl = run_cli(&argv(&["version", "--source", "stdin", "--output-template", "{{ semver }}|{{ bumped_branch }}|{{ pep440 }}"]), Some(&ron));
        let pep_fits = [z.vars.major, z.vars.minor, z.vars.patch, z.vars.epoch, z.vars.post, z.vars.dev].iter().all(|x| x.map(|n| n <= u32::MAX as u64).unwrap_or(true));
        let res = |o: &Outcome| json!({"kind": o.tag(), "s": to_cps(o.ok().unwrap_or(""))});
        let (dsv, dpep, dpanic) = match &direct { Ok((a, b)) => (a.clone(), b.clone(), false), Err(_) => (String::new(), String::new(), true) };
        // epoch 0 is dropped by the pipeline's normalisation: compare on objects without it
        let epoch0 = z.vars.epoch == Some(0);
        writeln!(out, "{}", json!({"k": "roundtrip", "same_object": same_object, "same_bytes": same_bytes, "direct_panic": dpanic,
            "direct_sv": to_cps(&dsv), "direct_pep": to_cps(&dpep), "piped_sv": res(&piped_sv), "piped_pep": res(&piped_pep),
            "piped_tpl": res(&piped_tpl), "branch": to_cps(z.vars.bumped_branch.as_deref().unwrap_or("")),
            "pep_fits": pep_fits, "epoch0": epoch0, "ron": to_cps(&ron.chars().take(400).collect::<String>())})).unwrap();
    }
    out.flush().unwrap();
    println!("{}", json!({"module": "ron", "events": n}));
}
