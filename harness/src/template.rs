//! C15: output templates - context variables and functions - against Template.tla.
use std::io::Write;

use rand::rngs::StdRng;
use rand::{Rng, SeedableRng};
use serde_json::{Value, json};
use zerv::version::zerv::{Component, Var, Zerv, ZervSchema, ZervVars};

use crate::cli::{Outcome, argv, run_cli};
use crate::wire::*;

fn base_object(branch: &str) -> Zerv {
    let schema = ZervSchema::new(vec![Component::Var(Var::Major), Component::Var(Var::Minor), Component::Var(Var::Patch)], vec![], vec![]).unwrap();
    let vars = ZervVars { major: Some(1), minor: Some(2), patch: Some(3), bumped_branch: Some(branch.to_string()),
                          bumped_timestamp: Some(1_709_209_545), distance: Some(7), ..Default::default() };
    Zerv { schema, vars }
}

/// evaluate one template expression against an object; the brackets defeat the output trimming
pub fn eval(obj_ron: &str, expr: &str) -> Outcome {
    let t = format!("[{{{{ {expr} }}}}]");
    match run_cli(&argv(&["version", "--source", "stdin", "--output-template", &t]), Some(obj_ron)) {
        Outcome::Ok(s) => Outcome::Ok(s.strip_prefix('[').and_then(|x| x.strip_suffix(']')).map(|x| x.to_string()).unwrap_or(format!("<unbracketed>{s}"))),
        o => o,
    }
}

fn tera_str(s: &str) -> Option<String> {
    // a Tera string literal; values containing both quote kinds or a backslash go through a variable instead
    if !s.contains('"') && !s.contains('\\') && !s.contains('\n') { Some(format!("\"{s}\"")) } else { None }
}

pub fn replay(args: &[String]) {
    let custom = arr(&tlc_lines(&args[0], "CUSTOM")[0]);
    let cases = tlc_lines(&args[0], "REPLAY");
    let results = par_map(&cases, |case| {
        let s = cps(&case["s"]);
        let ron = base_object(&s).to_string();
        let mut bad: Vec<(String, Value)> = vec![];
        let mut n = 0u64;
        let mut check = |expr: String, want: Vec<String>| {
            n += 1;
            match eval(&ron, &expr) {
                Outcome::Ok(o) if want.contains(&o) => {}
                o => bad.push((if matches!(o, Outcome::Panic(_)) { "C15:panic".into() } else { "C15:function".into() },
                               json!({"value": s, "expr": expr, "expected_any_of": want, "observed": {"kind": o.tag(), "text": o.text()}}))),
            }
        };
        check("sanitize(value=bumped_branch, preset=\"dotted\")".into(), vec![cps(&case["dotted"])]);
        check("sanitize(value=bumped_branch)".into(), vec![cps(&case["dotted"])]);
        check("sanitize(value=bumped_branch, preset=\"semver\")".into(), vec![cps(&case["dotted"])]);
        check("sanitize(value=bumped_branch, preset=\"lower_dotted\")".into(), vec![cps(&case["lower_dotted"])]);
        check("sanitize(value=bumped_branch, preset=\"pep440\")".into(), vec![cps(&case["lower_dotted"])]);
        if s.trim() == s {
            check("sanitize(value=bumped_branch, preset=\"uint\")".into(), vec![cps(&case["uint"])]);
        }
        for (k, c) in custom.iter().enumerate() {
            let sep = char::from_u32(c["sep"].as_u64().unwrap() as u32).unwrap();
            let mut e = format!("sanitize(value=bumped_branch, separator=\"{sep}\", lowercase={}, keep_zeros={}", c["lower"], c["keep"]);
            if c["max"].as_i64().unwrap() >= 0 {
                e += &format!(", max_length={}", c["max"]);
            }
            e += ")";
            check(e, arr(&case["custom"][k]).iter().map(cps).collect());
        }
        for (i, p) in arr(&case["prefix"]).iter().enumerate() {
            check(format!("prefix(value=bumped_branch, length={i})"), vec![cps(p)]);
        }
        check("prefix_if(value=bumped_branch, prefix=\"+\")".into(), vec![cps(&case["prefix_if"])]);
        (n, bad)
    });
    let mut rep = Report::new("template");
    for (case, (n, bad)) in cases.iter().zip(results) {
        rep.evaluations += n;
        if cps(&case["dotted"]) != cps(&case["s"]) {
            rep.nontrivial += 1;
        }
        if rep.evaluations % 5000 < n {
            rep.sample(json!({"value": cps(&case["s"]), "dotted": cps(&case["dotted"]), "prefix_if": cps(&case["prefix_if"])}));
        }
        for (k, d) in bad {
            rep.mismatch(&k, d);
        }
    }
    rep.print();
}

// ------------------------------------------------------------------ recorder --
const SV_RECOMPOSE: &str = "{{ semver_obj.base_part }}{% if semver_obj.pre_release_part %}-{{ semver_obj.pre_release_part }}{% endif %}{% if semver_obj.build_part %}+{{ semver_obj.build_part }}{% endif %}";
const PEP_RECOMPOSE: &str = "{{ pep440_obj.base_part }}{% if pep440_obj.pre_release_part %}{{ pep440_obj.pre_release_part }}{% endif %}{% if pep440_obj.build_part %}+{{ pep440_obj.build_part }}{% endif %}";
const SCALARS: &str = "{{ major }}|{{ minor }}|{{ patch }}|{{ epoch }}|{{ post }}|{{ dev }}|{{ distance }}|{{ dirty }}|{{ bumped_commit_hash_short }}|{{ last_commit_hash_short }}|{% if pre_release %}{{ pre_release.label }}.{{ pre_release.number }}{% endif %}";

fn raw_template(ron: &str, t: &str) -> Outcome {
    run_cli(&argv(&["version", "--source", "stdin", "--output-template", t]), Some(ron))
}

fn res(o: &Outcome) -> Value {
    json!({"kind": o.tag(), "s": to_cps(o.ok().unwrap_or(""))})
}

const VALUES: &[&str] = &["main", "feature/X-1", "Release/0012", "007", "a..b", "--x--", "é", "Ünï/çødé", "日本語ブランチ", "0", "", "hot_fix/ABC-0042",
    "VeryLongBranchNameWithManyCharacters/and/segments/0001/0002", "x", "1.2.3", "UPPER", "ab", "😀😀😀😀", "a😀b😀c", "with space", "00a", "0000"];
const FORMATS: &[&str] = &["%Y-%m-%d", "%Y%m%d", "%y.%-m.%-d", "%H:%M:%S", "%j", "%Y/%j %H", "compact_date", "compact_datetime", "v%Y.%m", "%%%Y", "plain"];

/// chrono's strftime directives whose value is determined by the UTC instant (Template.tla `Directive`)
const DIRECTIVES: &[&str] = &["%Y", "%C", "%y", "%m", "%d", "%e", "%H", "%k", "%I", "%l", "%M", "%S", "%j", "%U", "%W", "%V", "%G", "%g", "%u", "%w",
    "%a", "%A", "%b", "%h", "%B", "%p", "%P", "%D", "%x", "%F", "%T", "%X", "%R", "%r", "%c", "%v", "%+", "%z", "%:z", "%::z", "%:::z", "%Z", "%f", "%s", "%%",
    "%-m", "%-d", "%-H", "%-M", "%-S", "%-j", "%-I", "%-y", "%-U", "%-W", "%-V", "%-e", "%_m", "%_d", "%_H", "%_j", "%_I", "%0e", "%0k", "%0l", "%_S", "%-C", "%-g"];
const LITERALS: &[&str] = &["", "", "-", ".", ":", " ", "T", "/", "v", "week ", "_", ",", "Z"];

pub fn random_format(rng: &mut StdRng) -> String {
    let mut f = String::new();
    for _ in 0..rng.gen_range(1..=4) {
        f.push_str(LITERALS[rng.gen_range(0..LITERALS.len())]);
        f.push_str(DIRECTIVES[rng.gen_range(0..DIRECTIVES.len())]);
    }
    f.push_str(LITERALS[rng.gen_range(0..LITERALS.len())]);
    f
}

pub fn record(args: &[String]) {
    let seed: u64 = args[0].parse().unwrap();
    let n: usize = args[1].parse().unwrap();
    let mut out = std::io::BufWriter::new(std::fs::File::create(&args[2]).unwrap());
    let mut rng = StdRng::seed_from_u64(seed);
    let mut written = 0;
    while written < n {
        if written % 3 == 0 {
            // the context of a random object
            let sch = crate::zmodel::random_schema(&mut rng);
            let mut asg = crate::render::random_assignment(&mut rng);
            if asg["dirty"] == json!(1) {
                asg["dirty"] = json!(0);        // a dirty object is re-stamped with the wall clock
            }
            if asg["v"]["epoch"] == json!(0) {
                asg["v"]["epoch"] = json!(-1);  // the pipeline drops epoch 0 before templates see it
            }
            let Ok(z) = crate::render::build_zerv(&sch, &asg) else { continue };
            let ron = z.to_string();
            let sc = raw_template(&ron, SCALARS);
            let short = |h: &Value| if h["s"] == json!(1) { cps(&h["v"]).chars().take(8).collect::<String>() } else { String::new() };
            let num = |v: &Value| if v.as_i64().unwrap() == -1 { String::new() } else { v.to_string() };
            let v = &asg["v"];
            let pre = if v["pre"]["l"] == "none" { String::new() } else { format!("{}.{}", v["pre"]["l"].as_str().unwrap(), num(&v["pre"]["n"])) };
            let dirty = match asg["dirty"].as_i64().unwrap() { 1 => "true", 0 => "false", _ => "" };
            let want_scalars = format!("{}|{}|{}|{}|{}|{}|{}|{}|{}|{}|{}", num(&v["major"]), num(&v["minor"]), num(&v["patch"]), num(&v["epoch"]),
                num(&v["post"]), num(&v["dev"]), num(&asg["distance"]), dirty, short(&asg["hash"]), short(&asg["lhash"]), pre);
            writeln!(out, "{}", json!({"k": "ctx", "sch": sch, "st": asg,
                "semver": res(&raw_template(&ron, "{{ semver }}")), "pep440": res(&raw_template(&ron, "{{ pep440 }}")),
                "sv_recomposed": res(&raw_template(&ron, SV_RECOMPOSE)), "pep_recomposed": res(&raw_template(&ron, PEP_RECOMPOSE)),
                "docker": res(&raw_template(&ron, "{{ semver_obj.docker }}")),
                "scalars": res(&sc), "want_scalars": to_cps(&want_scalars)})).unwrap();
            written += 1;
            continue;
        }
        let value = VALUES[rng.gen_range(0..VALUES.len())];
        let ron = base_object(value).to_string();
        let ev = match rng.gen_range(0..7) {
            0 => {
                let preset = ["dotted", "semver", "semver_str", "lower_dotted", "pep440", "pep440_local_str"][rng.gen_range(0..6)];
                let o = eval(&ron, &format!("sanitize(value=bumped_branch, preset=\"{preset}\")"));
                json!({"k": "sanitize", "value": to_cps(value), "call": {"kind": "preset", "preset": preset, "sep": 0, "lower": false, "keep": false, "max": -1}, "out": res(&o)})
            }
            1 => {
                // custom parameters: any subset of the four (an omitted separator means none)
                let sep = [0u32, 0, 46, 45, 95][rng.gen_range(0..5)];
                let lower = if rng.gen_bool(0.5) { Some(rng.gen_bool(0.5)) } else { None };
                let keep = if rng.gen_bool(0.5) { Some(rng.gen_bool(0.5)) } else { None };
                let max: i64 = if rng.gen_bool(0.6) { rng.gen_range(0..12) } else { -1 };
                let mut parts = vec!["value=bumped_branch".to_string()];
                if sep != 0 { parts.push(format!("separator=\"{}\"", char::from_u32(sep).unwrap())); }
                if let Some(l) = lower { parts.push(format!("lowercase={l}")); }
                if let Some(k) = keep { parts.push(format!("keep_zeros={k}")); }
                if max >= 0 { parts.push(format!("max_length={max}")); }
                if parts.len() == 1 { continue }
                let o = eval(&ron, &format!("sanitize({})", parts.join(", ")));
                json!({"k": "sanitize", "value": to_cps(value), "call": {"kind": "custom", "preset": "", "sep": sep, "lower": lower.unwrap_or(false), "keep": keep.unwrap_or(false), "max": max}, "out": res(&o)})
            }
            2 => {
                let len = [0, 1, 7, 20, 100][rng.gen_range(0..5)];
                let o = eval(&ron, &format!("hash(value=bumped_branch, length={len})"));
                let o2 = eval(&ron, &format!("hash(value=bumped_branch, length={len})"));
                json!({"k": "hash", "value": to_cps(value), "len": len, "out": res(&o), "again": res(&o2)})
            }
            3 => {
                let len = [1, 2, 5, 7, 10, 20, 100, 19, 21, 65535, 65536, 100000][rng.gen_range(0..12)];
                let allow = rng.gen_bool(0.4);
                let o = eval(&ron, &format!("hash_int(value=bumped_branch, length={len}, allow_leading_zero={allow})"));
                let o2 = eval(&ron, &format!("hash_int(value=bumped_branch, length={len}, allow_leading_zero={allow})"));
                json!({"k": "hash_int", "value": to_cps(value), "len": len, "allow": allow, "out": res(&o), "again": res(&o2)})
            }
            4 => {
                let len = [0, 1, 2, 3, 7, 20, 100][rng.gen_range(0..7)];
                let o = eval(&ron, &format!("prefix(value=bumped_branch, length={len})"));
                json!({"k": "prefix", "value": to_cps(value), "len": len, "out": res(&o)})
            }
            5 => {
                let p = ["+", "-", "v", "release-", ""][rng.gen_range(0..5)];
                let o = eval(&ron, &format!("prefix_if(value=bumped_branch, prefix={})", tera_str(p).unwrap()));
                json!({"k": "prefix_if", "value": to_cps(value), "prefix": to_cps(p), "out": res(&o)})
            }
            _ => {
                // any instant up to 9999-12-31: a handful of anchors, the range the calendar automaton walks,
                // the far future, and the first timestamps with 11 digits (10^10 s = day 115740, second 64000)
                let (day, sod): (u64, u64) = match rng.gen_range(0..8) {
                    0 => ([19782u64, 47541, 0, 10957, 365][rng.gen_range(0..5)], rng.gen_range(0..86400)),
                    1 | 2 => (rng.gen_range(0..=84005), rng.gen_range(0..86400)),
                    3 | 4 => (rng.gen_range(84006..=2_932_896), rng.gen_range(0..86400)),
                    5 => (115_740, [63_999u64, 64_000, 64_001][rng.gen_range(0..3)]),
                    6 => (2_932_896, 86_399),
                    _ => ([24_855u64, 49_710, 99_999, 115_739, 115_741, 1_157_407][rng.gen_range(0..6)], rng.gen_range(0..86400)),
                };
                let f: String = if rng.gen_bool(0.4) { FORMATS[rng.gen_range(0..FORMATS.len())].to_string() } else { random_format(&mut rng) };
                let f = f.as_str();
                let mut z = base_object("main");
                z.vars.bumped_timestamp = Some(day * 86400 + sod);
                let o = eval(&z.to_string(), &format!("format_timestamp(value=bumped_timestamp, format=\"{f}\")"));
                json!({"k": "format_timestamp", "inst": {"c": civil_json(day), "sod": sod},
                       "format": to_cps(f), "ts": to_cps(&(day * 86400 + sod).to_string()), "out": res(&o), "tz": std::env::var("TZ").unwrap_or_default()})
            }
        };
        writeln!(out, "{ev}").unwrap();
        written += 1;
    }
    out.flush().unwrap();
    println!("{}", json!({"module": "template", "events": n}));
}
