---------------------------- MODULE Trace_Calendar ----------------------------
(* Validates recorded resolve_timestamp calls at random instants (sorted by day). *)
(* The trace spec walks the calendar automaton: silent NextDay steps between      *)
(* events, one Check step per event.  The TZ the recording process ran under is   *)
(* logged and deliberately ignored: all fields are UTC.                           *)
EXTENDS Calendar, TLC, Json, IOUtils
Rec == ndJsonDeserialize(IOEnv.TRACE)
VARIABLES c, l
Init == c = Day0 /\ l = 1

EventOk(e) == e.ok /\ e.out = Field(e.p, c, e.sod)
Advance == /\ l <= Len(Rec) /\ Rec[l].day > c.day
           /\ c' = NextDayOf(c) /\ l' = l
Check   == /\ l <= Len(Rec) /\ Rec[l].day = c.day
           /\ IF EventOk(Rec[l]) THEN TRUE ELSE PrintT("MISMATCH " \o ToString(l))
           /\ l' = l + 1 /\ c' = c
Next == Advance \/ Check
Spec == Init /\ [][Next]_<<c, l>>
AllConsumed == IF TLCGet("stats").diameter = Len(Rec) + 1 + Rec[Len(Rec)].day THEN TRUE
               ELSE PrintT("UNCONSUMED " \o ToString(TLCGet("stats").diameter)) /\ FALSE
=============================================================================
