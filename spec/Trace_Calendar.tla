---------------------------- MODULE Trace_Calendar ----------------------------
(* Validates recorded resolve_timestamp calls at random instants (sorted by day). *)
(* The trace spec walks the calendar automaton: silent NextDay steps between      *)
(* events, one Check step per event.  The TZ the recording process ran under is   *)
(* logged and deliberately ignored: all fields are UTC.                           *)
EXTENDS Calendar, TLC, Json, IOUtils
Rec == ndJsonDeserialize(IOEnv.TRACE)
VARIABLES c, l
Init == c = Day0 /\ l = 1

\* "far" events (after the walked ones) lie beyond the range worth walking: they carry their civil
\* fields, which must satisfy the closed form (tied to the automaton by MC_Calendar)
IsFar(e) == e.k = "far"
EventOk(e) == e.ok /\ e.out = Field(e.p, c, e.sod)
FarOk(e) == e.ok /\ e.out = Field(e.p, e.c, e.sod)
Advance == /\ l <= Len(Rec) /\ ~IsFar(Rec[l]) /\ Rec[l].day > c.day
           /\ c' = NextDayOf(c) /\ l' = l
Check   == /\ l <= Len(Rec) /\ ~IsFar(Rec[l]) /\ Rec[l].day = c.day
           /\ IF EventOk(Rec[l]) THEN TRUE ELSE PrintT("MISMATCH " \o ToString(l))
           /\ l' = l + 1 /\ c' = c
CheckFar == /\ l <= Len(Rec) /\ IsFar(Rec[l])
            /\ IF ~ValidCivil(Rec[l].c) THEN PrintT("MISMATCH " \o ToString(l) \o " recorder-civil-fields")
               ELSE IF FarOk(Rec[l]) THEN TRUE ELSE PrintT("MISMATCH " \o ToString(l))
            /\ l' = l + 1 /\ c' = c
Next == Advance \/ Check \/ CheckFar
Spec == Init /\ [][Next]_<<c, l>>
Walked == { i \in 1..Len(Rec) : ~IsFar(Rec[i]) }
LastWalkDay == IF Walked = {} THEN 0 ELSE Rec[CHOOSE i \in Walked : \A j \in Walked : j <= i].day
AllConsumed == IF TLCGet("stats").diameter = Len(Rec) + 1 + LastWalkDay THEN TRUE
               ELSE PrintT("UNCONSUMED " \o ToString(TLCGet("stats").diameter)) /\ FALSE
=============================================================================
