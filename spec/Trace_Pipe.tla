------------------------------ MODULE Trace_Pipe ------------------------------
(* The interchange protocol of C12 on recorded runs.                                *)
(*  roundtrip : a producer emitted a Zerv RON document; the consumer parsed it to an *)
(*              identical object, re-emitted it byte-identically, and the renderings *)
(*              obtained through `version --source stdin` (semver, pep440, template) *)
(*              equal the direct ones.  Text is opaque here (hostile strings, custom *)
(*              JSON): equality is observed by the harness, required by the spec.    *)
(*  malformed : a document that is certainly not valid RON (unbalanced, trailing     *)
(*              garbage, two documents, empty) ends in a clean error.                *)
EXTENDS Text, TLC, Json, IOUtils
Rec == ndJsonDeserialize(IOEnv.TRACE)
VARIABLE l
Init == l = 1
BAR == 124
Reason(e) ==
  IF e.k = "malformed" THEN
       IF e.outcome = "panic" THEN "panic"
       ELSE IF e.outcome = "ok" THEN "malformed-document-rendered"
       ELSE IF e.library_accepts THEN "library-parser-accepts-malformed-document"
       ELSE "ok"
  ELSE IF e.direct_panic \/ e.piped_sv.kind = "panic" \/ e.piped_pep.kind = "panic" \/ e.piped_tpl.kind = "panic" THEN "panic"
  ELSE IF ~e.same_object THEN "parse-back-differs"
  ELSE IF ~e.same_bytes THEN "re-emission-differs"
  \* the pipeline normalises epoch 0 away before rendering; the direct rendering of such an
  \* object still shows it, so renderings are compared for the other objects
  ELSE IF e.epoch0 THEN "ok"
  ELSE IF e.piped_sv.kind # "ok" \/ e.piped_sv.s # e.direct_sv THEN "piped-semver-differs"
  ELSE IF e.pep_fits /\ (e.piped_pep.kind # "ok" \/ e.piped_pep.s # e.direct_pep) THEN "piped-pep440-differs"
  ELSE IF ~e.pep_fits /\ e.piped_pep.kind = "ok" THEN "pep440-rendered-with-number-beyond-u32"
  ELSE IF e.pep_fits /\ (e.piped_tpl.kind # "ok" \/ e.piped_tpl.s # e.direct_sv \o <<BAR>> \o e.branch \o <<BAR>> \o e.direct_pep) THEN "piped-template-differs"
  ELSE "ok"
Next == /\ l <= Len(Rec)
        /\ LET why == Reason(Rec[l]) IN IF why = "ok" THEN TRUE ELSE PrintT("MISMATCH " \o ToString(l) \o " " \o why)
        /\ l' = l + 1
Spec == Init /\ [][Next]_l
AllConsumed == IF TLCGet("stats").diameter = Len(Rec) + 1 THEN TRUE
               ELSE PrintT("UNCONSUMED " \o ToString(TLCGet("stats").diameter)) /\ FALSE
=============================================================================
