---------------------------- MODULE Trace_Template ----------------------------
(* Validates recorded template evaluations (`version --source stdin                *)
(* --output-template ...`) against Template.tla: the context of random objects and   *)
(* random calls of the six functions with hostile values.                            *)
EXTENDS Template, TLC, Json, IOUtils
Rec == ndJsonDeserialize(IOEnv.TRACE)
VARIABLE l
Init == l = 1
Ok(r) == r.kind = "ok"
Reason(e) ==
  IF e.k = "ctx" THEN
       IF \E f \in {"semver", "pep440", "sv_recomposed", "pep_recomposed", "docker", "scalars"} : e[f].kind = "panic" THEN "panic"
       ELSE IF ~InstantsOk(e.st) THEN "recorder-civil-fields"
       ELSE IF ~ValidSchema(e.sch) THEN "ok"
       ELSE LET sv == RenderSemVer(e.sch, e.st)   pp == RenderPep440(e.sch, e.st) IN
            IF ~Ok(e.semver) \/ e.semver.s # sv THEN "semver-variable"
            ELSE IF ~Ok(e.pep440) \/ e.pep440.s # pp THEN "pep440-variable"
            ELSE IF ~Ok(e.sv_recomposed) \/ e.sv_recomposed.s # sv THEN "semver_obj-recomposition"
            ELSE IF ~Ok(e.pep_recomposed) \/ e.pep_recomposed.s # pp THEN "pep440_obj-recomposition"
            ELSE IF ~Ok(e.docker) \/ e.docker.s # Replace(sv, PLUS, DASH) THEN "docker-form"
            ELSE IF ~Ok(e.scalars) \/ e.scalars.s # e.want_scalars THEN "scalar-variables"
            ELSE "ok"
  ELSE IF e.out.kind = "panic" THEN "panic"
  ELSE IF e.out.kind # "ok" THEN (IF e.k = "sanitize" /\ e.call.kind = "preset" THEN "function-error" ELSE "function-error")
  ELSE IF e.k = "sanitize" THEN (IF ~SanitizeOk(e.value, e.call, e.out.s) THEN "sanitize-contract"
                                  ELSE IF NoSepDeviates(e.value, e.call, e.out.s) THEN "X-sanitize-without-separator" ELSE "ok")
  ELSE IF e.k = "hash" THEN
       (IF e.len = 0 THEN (IF e.out.s = <<>> THEN "ok" ELSE "hash-length")
        ELSE IF HashOk(e.len, e.out.s) /\ e.again = e.out THEN "ok" ELSE "hash-contract")
  ELSE IF e.k = "hash_int" THEN (IF HashIntOk(e.len, e.allow, e.out.s) /\ e.again = e.out THEN "ok" ELSE "hash_int-contract")
  ELSE IF e.k = "prefix" THEN (IF PrefixOk(e.value, e.len, e.out.s) THEN "ok" ELSE "prefix-contract")
  ELSE IF e.k = "prefix_if" THEN (IF PrefixIfOk(e.value, e.prefix, e.out.s) THEN "ok" ELSE "prefix_if-contract")
  ELSE IF e.k = "format_timestamp" THEN (IF ~ValidCivil(e.inst.c) THEN "recorder-civil-fields"
                                         ELSE IF e.out.s = FormatTimestampTs(e.format, e.inst, e.ts) THEN "ok" ELSE "format_timestamp")
  ELSE "unknown-event"
Next == /\ l <= Len(Rec)
        /\ LET why == Reason(Rec[l]) IN IF why = "ok" THEN TRUE ELSE PrintT("MISMATCH " \o ToString(l) \o " " \o why)
        /\ l' = l + 1
Spec == Init /\ [][Next]_l
AllConsumed == IF TLCGet("stats").diameter = Len(Rec) + 1 THEN TRUE
               ELSE PrintT("UNCONSUMED " \o ToString(TLCGet("stats").diameter)) /\ FALSE
=============================================================================
