----------------------------- MODULE MC_Strftime -----------------------------
(* Design-level check of the week arithmetic behind format_timestamp (Template.tla):   *)
(* the closed forms WeekSun / WeekMon / IsoWeekDate are walked day by day over the       *)
(* calendar automaton and compared with their DEFINING properties, which are stated      *)
(* independently of the closed forms:                                                    *)
(*   %U / %W   0 before the year's first Sunday / Monday, then +1 on every Sunday /      *)
(*             Monday, never reset inside a year;                                       *)
(*   ISO 8601  a week runs Monday..Sunday and belongs to the year that holds its         *)
(*             Thursday; week 1 is the week of January 4th; the number goes up by one   *)
(*             on Mondays (or restarts at 1) and never changes inside a week.           *)
EXTENDS Template, TLC
CONSTANT LastDay
VARIABLES c, prev
Init == c = Day0 /\ prev = Day0
Next == c.day < LastDay /\ c' = NextDayOf(c) /\ prev' = c
Spec == Init /\ [][Next]_<<c, prev>>

Iso(x) == IsoWeekDate(x)
Ranges == /\ WeekSun(c) \in 0..53 /\ WeekMon(c) \in 0..53
          /\ Iso(c).w \in 1..53 /\ Iso(c).y \in {c.y - 1, c.y, c.y + 1}
\* January 4th is always in week 1 of its own year, December 28th always in the last week of its own year
Jan4Dec28 == /\ (c.m = 1 /\ c.d = 4) => (Iso(c).w = 1 /\ Iso(c).y = c.y)
             /\ (c.m = 12 /\ c.d = 28) => (Iso(c).y = c.y /\ Iso(c).w \in {52, 53})
\* the ISO year is the calendar year of the week's Thursday (wd = 3 counting from Monday = 0)
ThursdayRule == c.wd = 3 => Iso(c).y = c.y
\* day-to-day steps (prev is yesterday except in the initial state)
Steps == prev.day + 1 = c.day =>
  /\ IF c.wd = 0 THEN (Iso(c).w = Iso(prev).w + 1 /\ Iso(c).y = Iso(prev).y) \/ (Iso(c).w = 1 /\ Iso(c).y = Iso(prev).y + 1)
     ELSE Iso(c) = Iso(prev)
  /\ IF c.yd = 1 THEN WeekMon(c) = (IF c.wd = 0 THEN 1 ELSE 0) /\ WeekSun(c) = (IF c.wd = 6 THEN 1 ELSE 0)
     ELSE /\ WeekMon(c) = WeekMon(prev) + (IF c.wd = 0 THEN 1 ELSE 0)
          /\ WeekSun(c) = WeekSun(prev) + (IF c.wd = 6 THEN 1 ELSE 0)
\* known anchors: 2021-01-01 (Friday) is 2020-W53; 2024-12-30 (Monday) is 2025-W01; 2000-01-01 is 1999-W52
Known == /\ c.day = 18628 => (c.y = 2021 /\ c.m = 1 /\ c.d = 1 /\ Iso(c) = [y |-> 2020, w |-> 53])
         /\ c.day = 20087 => (c.y = 2024 /\ c.m = 12 /\ c.d = 30 /\ Iso(c) = [y |-> 2025, w |-> 1])
         /\ c.day = 10957 => Iso(c) = [y |-> 1999, w |-> 52]
=============================================================================
