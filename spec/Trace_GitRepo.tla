----------------------------- MODULE Trace_GitRepo -----------------------------
(* Validates recorded git sessions: every logged operation must be the matching     *)
(* GitRepo action (a session whose operation the model cannot take is a tool error:  *)
(* the model of git would be wrong), and every observation of `zerv version` made    *)
(* after an operation is judged against the facts derived from the DAG.             *)
(* Sessions are concatenated; a "reset" event starts a fresh repository.            *)
EXTENDS GitRepo, Json, IOUtils
Rec == ndJsonDeserialize(IOEnv.TRACE)
VARIABLE l
tvars == <<parents, branches, head, tags, l>>
TInit == l = 1 /\ GInit

\* work-tree kinds the recorder produces; "ignored" (a file matched by .gitignore) and "empty-dir" are no changes
Dirty(kind) == kind \in {"modified", "staged", "untracked", "deleted", "staged-deletion", "untracked-nested", "staged-then-reverted", "mode-changed"}
\* e.at = 0: observed in the main work tree (its root or a sub-directory); e.at = c: observed in a
\* linked work tree (git worktree add) at commit c - its own HEAD, detached or on the branch e.wbranch
\* created for it (a temporary branch at c: it carries no tag and changes no fact of the model)
ObserveReason(e) ==
  LET o == e.obs
      h == IF e.at = 0 THEN HeadCommit ELSE e.at
      exp == ExpectedFrom(h, e.fmt) IN
  IF o.kind = "panic" THEN "panic"
  ELSE IF o.kind = "unparsable" THEN "unparsable"
  ELSE IF o.kind = "err" THEN (IF exp = {} THEN "ok" ELSE "refused-although-tagged")
  ELSE IF exp = {} THEN "version-without-valid-tag"
  ELSE IF ~\E x \in exp : x.tag = o.tag /\ x.c = o.tagc /\ x.distance = o.distance THEN "base-tag-or-distance"
  ELSE IF o.dirty # Dirty(e.wt) THEN "dirty"
  ELSE IF o.branch # (IF e.at = 0 THEN BranchReported ELSE IF "wbranch" \in DOMAIN e THEN e.wbranch ELSE "") THEN "branch"
  ELSE IF o.headc # h THEN "head-commit"
  ELSE IF ~o.tag_time_ok THEN "tag-time"
  ELSE IF o.head_time # (IF Dirty(e.wt) THEN "now" ELSE "commit") THEN "head-time"
  ELSE "ok"

\* C03 on real histories: in commit post-mode one more commit on the same branch after the same
\* base tag gives a strictly greater flow version (SemVer and PEP 440), judged on the observed strings
\* (a pre-release base tag is excluded for the first commit: the label switches to the branch's)
FlowPairReason(e) ==
  LET fin == SVG!IsSemVer(e.tag) /\ SVG!Parse(e.tag).pre = <<>> IN
  IF ~SVG!IsSemVer(e.sv0) \/ ~SVG!IsSemVer(e.sv1) \/ ~PPG!GreedyAccepts(e.pep0) \/ ~PPG!GreedyAccepts(e.pep1) THEN "flow-output-not-wellformed"
  ELSE IF ~fin THEN "ok"
  ELSE IF SVG!SvCmp(SVG!Parse(e.sv0), SVG!Parse(e.sv1)) >= 0 THEN "flow-semver-not-increasing-along-history"
  ELSE IF PPG!PepCmp(PPG!Greedy(e.pep0), PPG!Greedy(e.pep1)) >= 0 THEN "flow-pep440-not-increasing-along-history"
  ELSE "ok"

\* C03 on real repositories: HEAD (clean) carries a final release X.Y.Z as its base tag => flow prints exactly X.Y.Z
FinalCore(t) == SVG!IsSemVer(t) /\ SVG!CoreFits(t) /\ SVG!Parse(t).pre = <<>> /\ SVG!Parse(t).build = <<>>
FlowCleanReason(e) ==
  LET here == { x \in Expected("auto") : x.distance = 0 } IN
  IF here = {} \/ \E x \in here : ~FinalCore(x.tag) THEN "ok"            \* not at a tag, or not (only) final releases
  ELSE IF ~\E x \in here : e.sv = SVG!StripV(x.tag) THEN "flow-clean-tag-not-reproduced-semver"
  ELSE IF ~\E x \in here : e.pep = SVG!StripV(x.tag) THEN "flow-clean-tag-not-reproduced-pep440"
  ELSE "ok"
Apply(e) ==
  CASE e.op = "commit"   -> Commit
    [] e.op = "branch"   -> Branch(e.arg)
    [] e.op = "checkout" -> Checkout(e.arg)
    [] e.op = "detach"   -> Detach(e.arg)
    [] e.op = "mergeff"  -> MergeFF(e.arg)
    [] e.op = "merge"    -> MergeNoFF(e.arg)
    [] e.op = "tag"      -> Tag(e.arg, FALSE)
    [] e.op = "atag"     -> Tag(e.arg, TRUE)
    [] e.op = "deltag"   -> DeleteTag(e.arg)
    [] e.op = "reset"    -> Reset(e.arg)
    [] e.op = "amend"    -> Amend
    [] e.op = "movetag"  -> MoveTag(e.arg, FALSE)
    [] e.op = "moveatag" -> MoveTag(e.arg, TRUE)
Last == IF l = Len(Rec) THEN PrintT("CONSUMED " \o ToString(l)) ELSE TRUE
TNext ==
  /\ l <= Len(Rec) /\ l' = l + 1
  /\ LET e == Rec[l] IN
     CASE e.k = "reset"   -> /\ parents' = << <<>> >> /\ branches' = [b \in {"main"} |-> 1]
                             /\ head' = [b |-> "main"] /\ tags' = {} /\ Last
       [] e.k = "op"      -> Apply(e) /\ Last
       [] e.k = "gitout" -> /\ LET ok == IF e.fmt = "semver" THEN SVG!IsSemVer(e.text) /\ e.text[1] # 118
                                          ELSE PPG!GreedyAccepts(e.text) /\ PPG!NormalOf(e.text) = e.text IN
                               IF ok THEN TRUE ELSE PrintT("MISMATCH " \o ToString(l) \o " git-output-not-wellformed")
                            /\ UNCHANGED gvars /\ Last
       [] e.k = "flowclean" -> /\ LET why == FlowCleanReason(e) IN
                                  IF why = "ok" THEN TRUE ELSE PrintT("MISMATCH " \o ToString(l) \o " " \o why)
                               /\ UNCHANGED gvars /\ Last
       [] e.k = "flowpair" -> /\ LET why == FlowPairReason(e) IN
                                 IF why = "ok" THEN TRUE ELSE PrintT("MISMATCH " \o ToString(l) \o " " \o why)
                              /\ UNCHANGED gvars /\ Last
       [] e.k = "observe" -> /\ LET why == ObserveReason(e) IN
                                IF why = "ok" THEN TRUE ELSE PrintT("MISMATCH " \o ToString(l) \o " " \o why)
                             /\ UNCHANGED gvars /\ Last
Spec == TInit /\ [][TNext]_tvars
AllConsumed == TLCGet("stats").diameter > 0
=============================================================================
