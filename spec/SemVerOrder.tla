----------------------------- MODULE SemVerOrder -----------------------------
(* SemVer 2.0.0 section 11 (precedence) on parsed values                        *)
(* [major, minor, patch : numeral text, pre, build : Seq(identifier text)].      *)
EXTENDS SemVerGrammar

\* numerals are canonical (no leading zeros): longer is greater, else by digits
NumeralCmp(a, b) == NumCmp(a, b)

\* 11.4: numeric identifiers numerically; alphanumeric ones in ASCII order;
\* numeric below alphanumeric
IdentCmp(a, b) ==
  IF IsCanonNum(a) /\ IsCanonNum(b) THEN NumeralCmp(a, b)
  ELSE IF IsCanonNum(a) THEN -1
  ELSE IF IsCanonNum(b) THEN 1
  ELSE LexCmp(a, b)

\* 11.4.4: a larger set of fields is higher when all preceding ones are equal
RECURSIVE PreCmpFrom(_, _, _)
PreCmpFrom(p, q, i) ==
  IF i > Len(p) /\ i > Len(q) THEN 0
  ELSE IF i > Len(p) THEN -1
  ELSE IF i > Len(q) THEN 1
  ELSE LET c == IdentCmp(p[i], q[i]) IN IF c # 0 THEN c ELSE PreCmpFrom(p, q, i + 1)

SvCmp(v, w) ==
  LET a == NumeralCmp(v.major, w.major) IN IF a # 0 THEN a ELSE
  LET b == NumeralCmp(v.minor, w.minor) IN IF b # 0 THEN b ELSE
  LET c == NumeralCmp(v.patch, w.patch) IN IF c # 0 THEN c ELSE
  \* 11.3: a pre-release version has lower precedence than the normal version
  IF v.pre = <<>> /\ w.pre = <<>> THEN 0
  ELSE IF v.pre = <<>> THEN 1
  ELSE IF w.pre = <<>> THEN -1
  ELSE PreCmpFrom(v.pre, w.pre, 1)
  \* build metadata is ignored (section 10)
=============================================================================
