-------------------------------- MODULE MC_Flow --------------------------------
(* Bounded input space for Flow: tags x branch names x distance x dirty flags x     *)
(* --post x explicit label / number / post mode x hash length x rule sets x the      *)
(* eleven standard presets.  Invariants: the flow result equals the component law   *)
(* of C04; C03's bounds and monotonicity on the rendered strings, judged by the      *)
(* SemVer / PEP 440 order modules (presets that print no pre-release or no post      *)
(* component are excluded here and reported as design-level findings by the check).  *)
EXTENDS Flow, TLC, Json
R  == INSTANCE Render
SO == INSTANCE SemVerOrder
PO == INSTANCE Pep440Order

CONSTANTS Emit, Suffixes, RuleSets, Big, HLens   \* HLens: hash lengths (0 and 11 are invalid)

B(str) == CASE str = "main" -> <<109,97,105,110>> [] str = "develop" -> <<100,101,118,101,108,111,112>>
            [] str = "develop-x" -> <<100,101,118,101,108,111,112,45,120>>
            [] str = "release/1" -> <<114,101,108,101,97,115,101,47,49>>
            [] str = "release/1/x" -> <<114,101,108,101,97,115,101,47,49,47,120>>
            [] str = "release/x" -> <<114,101,108,101,97,115,101,47,120>>
            [] str = "release-1" -> <<114,101,108,101,97,115,101,45,49>>
            [] str = "releases" -> <<114,101,108,101,97,115,101,115>>
            [] str = "release/" -> <<114,101,108,101,97,115,101,47>>
            [] str = "release" -> <<114,101,108,101,97,115,101>>
            [] str = "feature/7/y" -> <<102,101,97,116,117,114,101,47,55,47,121>>
            [] str = "feature/x/08" -> <<102,101,97,116,117,114,101,47,120,47,48,56>>
            [] str = "9/x" -> <<57,47,120>> [] str = "" -> <<>>
            [] str = "release/*" -> <<114,101,108,101,97,115,101,47,42>>
            [] str = "feature/*" -> <<102,101,97,116,117,114,101,47,42>>
            [] str = "release/1/*" -> <<114,101,108,101,97,115,101,47,49,47,42>>
            [] str = "*" -> <<42>>
Branches == IF Big THEN { B("main"), B("develop"), B("develop-x"), B("release/1"), B("release/1/x"), B("release/x"), B("release-1"),
                          B("releases"), B("release/"), B("release"), B("feature/7/y"), B("feature/x/08"), B("9/x"), B("") }
            ELSE { B("main"), B("develop"), B("release/1"), B("release/1/x"), B("release-1"), B("release/x"), B("feature/7/y"), B("") }
Rule(p, l, n, m) == [pattern |-> B(p), label |-> l, num |-> n, mode |-> m]
RS(i) == CASE i = 1 -> << Rule("develop", "beta", 1, "commit"), Rule("release/*", "rc", NONE, "tag"), Rule("*", "alpha", NONE, "commit") >>
           \* first match wins among overlapping wildcards
           [] i = 2 -> << Rule("release/1/*", "beta", NONE, "commit"), Rule("release/*", "rc", NONE, "tag"), Rule("feature/*", "alpha", NONE, "tag") >>
           \* exact before wildcard, and no catch-all
           [] i = 3 -> << Rule("release/1", "beta", 7, "tag"), Rule("release/*", "rc", NONE, "commit") >>
           \* the catch-all first
           [] i = 4 -> << Rule("*", "beta", NONE, "tag"), Rule("develop", "rc", 2, "commit") >>
V(e, ma, mi, pa, l, n, po, d) == [epoch |-> e, major |-> ma, minor |-> mi, patch |-> pa, pre |-> [l |-> l, n |-> n], post |-> po, dev |-> d]
\* (a pre-release tag with post 0 - set, but zero - is a shape flow itself produces for a dirty tree at a final tag)
Tags == IF Big THEN { V(NONE, 1, 0, 0, "none", NONE, NONE, NONE), V(NONE, 0, 0, 9, "none", NONE, NONE, NONE),
                      V(NONE, 2, 3, 4, "rc", 1, 2, NONE), V(NONE, 1, 0, 0, "alpha", 5, NONE, NONE), V(1, 1, 0, 0, "none", NONE, NONE, NONE),
                      V(NONE, 1, 2, 4, "alpha", 15096, 0, NONE) }
        ELSE { V(NONE, 1, 0, 0, "none", NONE, NONE, NONE), V(NONE, 2, 3, 4, "rc", 1, 0, NONE), V(1, 0, 0, 9, "none", NONE, NONE, NONE) }
DirtyChoices == { <<FALSE, FALSE, FALSE>>, <<TRUE, FALSE, FALSE>>, <<FALSE, TRUE, FALSE>>, <<FALSE, FALSE, TRUE>> }
\* inputs are chosen in two steps (tag and branch first) so that TLC's workers share the rest
Seeds ==
  { [ tag |-> t, post |-> NONE, distance |-> NONE, dirty |-> FALSE, nodirty |-> FALSE, clean |-> FALSE,
      hasBranch |-> b # B(""), branch |-> b, label |-> "", num |-> NONE, mode |-> "", hlen |-> 5, rules |-> RS(1), rsid |-> 1,
      suffix |-> "", filled |-> FALSE ] : t \in Tags, b \in Branches }
VARIABLE f
Init == f \in Seeds
Next == /\ ~f.filled
        /\ \E po \in {NONE, 5}, d \in {NONE, 0, 1, 3}, dc \in DirtyChoices, l \in {"", "beta"}, n \in {NONE, 3},
              m \in {"", "tag", "commit"}, h \in HLens, rs \in RuleSets, sfx \in Suffixes :
              f' = [f EXCEPT !.post = po, !.distance = d, !.dirty = dc[1], !.nodirty = dc[2], !.clean = dc[3], !.label = l,
                             !.num = n, !.mode = m, !.hlen = h, !.rules = RS(rs), !.rsid = rs, !.suffix = sfx, !.filled = TRUE]
Spec == Init /\ [][Next]_f

Res == FlowResult(f)
\* C04: the walk of pass two gives exactly the component law
LawHolds == f.filled => (~Res.err => Res.v = Law(f))

\* ---- C03 on rendered strings ----
Conc(x) == IF x = HASH THEN 12345 ELSE IF x = NOW THEN 1700000000 ELSE x
ConcV(vv) == [vv EXCEPT !.pre.n = Conc(@), !.dev = Conc(@)]
NoText == [s |-> 0, v |-> <<>>]
St(vv, cx, g) == [ v |-> ConcV(vv), distance |-> cx.distance, dirty |-> cx.dirty,
                   branch |-> IF g.hasBranch THEN [s |-> 1, v |-> g.branch] ELSE NoText,
                   hash |-> NoText, custom |-> <<>>, bts |-> R!NoInstant, btsText |-> NoText,
                   lts |-> R!NoInstant, ltsText |-> NoText, lbranch |-> NoText, lhash |-> NoText ]
\* the schema is chosen in pass two from the pre-bump state
SchemaOf(g, rr) == LET cur == AsIs(g) IN
  R!PresetSchema("standard", g.suffix, rr.cx.dirty, rr.cx.distance, cur.pre.l # "none", cur.post # NONE)
SemVerOf(g) == LET rr == FlowResult(g) IN R!RenderSemVer(SchemaOf(g, rr), St(rr.v, rr.cx, g))
PepOf(g)    == LET rr == FlowResult(g) IN R!RenderPep440(SchemaOf(g, rr), St(rr.v, rr.cx, g))
Plain(t, bump) == [t EXCEPT !.patch = @ + bump]
BareSt(vv) == St(vv, [distance |-> NONE, dirty |-> NONE], [hasBranch |-> FALSE, branch |-> <<>>])
BareSchema == R!PresetSchema("standard", "-base", 0, 0, FALSE, FALSE)
SvText(vv) == R!RenderSemVer(BareSchema, BareSt(vv))
PepText(vv) == R!RenderPep440(BareSchema, BareSt(vv))
SvLess(x, y) == SO!SvCmp(SO!Parse(x), SO!Parse(y)) < 0
PepLess(x, y) == PO!PepCmp(PO!Greedy(x), PO!Greedy(y)) < 0
NoLocal(x) == [x EXCEPT !.hasLoc = FALSE, !.loc = <<>>]
FinalTag(t) == t.pre.l = "none" /\ t.post = NONE /\ t.dev = NONE
NoPreSuffixes == {"-base", "-base-context"}                       \* print no pre-release component
NoPostSuffixes == NoPreSuffixes \cup {"-base-prerelease", "-base-prerelease-context"}
IsActive(g) == Active(CtxOf(g, FALSE))
Bounds ==
  (f.filled /\ ~Res.err /\ FinalTag(f.tag) /\ f.post = NONE /\ f.suffix \notin NoPreSuffixes) =>
     IF ~IsActive(f)
     THEN \* exactly the tag (a -context preset may append build context / a local segment)
          /\ SO!SvCmp(SO!Parse(SemVerOf(f)), SO!Parse(SvText(f.tag))) = 0
          /\ PO!PepCmp(NoLocal(PO!Greedy(PepOf(f))), PO!Greedy(PepText(f.tag))) = 0
          /\ f.suffix \in {"", "-no-context", "-base-prerelease-post-dev", "-base-prerelease-post", "-base-prerelease"}
                => (SemVerOf(f) = SvText(f.tag) /\ PepOf(f) = PepText(f.tag))
     ELSE \* (SemVer carries an epoch as the pre-release identifiers "epoch.E"; a final release with an
          \*  epoch is then itself a SemVer pre-release and the upper bound is only meaningful in PEP 440)
          /\ f.tag.epoch = NONE => (SvLess(SvText(f.tag), SemVerOf(f)) /\ SvLess(SemVerOf(f), SvText(Plain(f.tag, 1))))
          /\ PepLess(PepText(f.tag), PepOf(f)) /\ PepLess(PepOf(f), PepText(Plain(f.tag, 1)))
\* commit post-mode: one more commit on the same branch gives a strictly greater version
Monotonic ==
  \* (from a pre-release tag the first commit switches to the branch's label, which may sort
  \*  lower than the tag's: the claim is about commits after a final tag, or after the first one)
  (f.filled /\ ~Res.err /\ f.distance # NONE /\ ~f.clean /\ Res.r.mode = "commit" /\ f.suffix \notin NoPostSuffixes
     /\ (FinalTag(f.tag) \/ f.distance >= 1)) =>
     LET g == [f EXCEPT !.distance = @ + 1] IN
       SvLess(SemVerOf(f), SemVerOf(g)) /\ PepLess(PepOf(f), PepOf(g))
\* a clean checkout at a pre-release tag of the shape flow produces gives the tag back
\* C03, last clause: a clean checkout at a pre-release tag of the shape flow produces (label.N.post.P)
\* yields that tag unchanged - under every preset that prints a post component
ShowsPost == {"", "-no-context", "-context", "-base-prerelease-post", "-base-prerelease-post-dev",
              "-base-prerelease-post-context", "-base-prerelease-post-dev-context"}
FlowShape(tg) == tg.pre.l # "none" /\ tg.pre.n # NONE /\ tg.post # NONE /\ tg.dev = NONE
\* the tag itself as text: every component it carries is printed (fixed preset base-prerelease-post-dev)
FullSchema == R!PresetSchema("standard", "-base-prerelease-post-dev", 0, 0, FALSE, FALSE)
FullSv(vv)  == R!RenderSemVer(FullSchema, BareSt(vv))
FullPep(vv) == R!RenderPep440(FullSchema, BareSt(vv))
PreTagExact ==
  (f.filled /\ ~Res.err /\ FlowShape(f.tag) /\ f.post = NONE /\ ~IsActive(f) /\ f.suffix \in ShowsPost) =>
     /\ SO!SvCmp(SO!Parse(SemVerOf(f)), SO!Parse(FullSv(f.tag))) = 0
     /\ PO!PepCmp(NoLocal(PO!Greedy(PepOf(f))), PO!Greedy(FullPep(f.tag))) = 0
     /\ f.suffix \in {"", "-no-context", "-base-prerelease-post", "-base-prerelease-post-dev"}
           => (SemVerOf(f) = FullSv(f.tag) /\ PepOf(f) = FullPep(f.tag))
CleanTagUnchanged == f.filled => ((~Res.err /\ ~IsActive(f)) => Res.v = AsIs(f))

EmitLine == (Emit /\ f.filled) => PrintT("REPLAY " \o ToJson([ f |-> f, err |-> Res.err, v |-> Res.v, cx |-> Res.cx, r |-> Res.r ]))
=============================================================================
