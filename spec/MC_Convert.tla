------------------------------- MODULE MC_Convert -------------------------------
(* Enumerates canonical-shape versions: every shape (which optional parts are      *)
(* present, three build-metadata choices), small numbers in every numeric slot,    *)
(* and boundary numerals (2^32-1, 2^32, 2^64-1, 2^64, 25 digits) in one slot at a  *)
(* time.  Checks on the specification: the SemVer text is in the SemVer language   *)
(* and parses back to the same fields, the PEP 440 text is an accepted normal      *)
(* form; prints the expected conversions for replay through `zerv render`.         *)
EXTENDS Convert, TLC, Json
SV == INSTANCE SemVerGrammar
PG == INSTANCE Pep440Grammar
CONSTANTS Emit, Small

N(str) == CASE str = "0" -> <<48>> [] str = "1" -> <<49>> [] str = "5" -> <<53>> [] str = "10" -> <<49,48>>
            [] str = "u32" -> U32T [] str = "u32+1" -> <<52,50,57,52,57,54,55,50,57,54>>
            [] str = "u64" -> U64T [] str = "u64+1" -> <<49,56,52,52,54,55,52,52,48,55,51,55,48,57,53,53,49,54,49,54>>
            [] str = "u32-1" -> <<52,50,57,52,57,54,55,50,57,52>> [] str = "i32+1" -> <<50,49,52,55,52,56,51,54,52,56>>
            [] str = "u64-1" -> <<49,56,52,52,54,55,52,52,48,55,51,55,48,57,53,53,49,54,49,52>>
            [] str = "i64+1" -> <<57,50,50,51,51,55,50,48,51,54,56,53,52,55,55,53,56,48,56>>
            [] str = "big" -> <<57,57,57,57,57,57,57,57,57,57,57,57,57,57,57,57,57,57,57,57,57,57,57,57,57>>
            [] str = "abc" -> <<97,98,99>> [] str = "7" -> <<55>> [] str = "x1" -> <<120,49>>
SmallNums == { N(s) : s \in Small }
BigNums == { N("u32"), N("u32+1"), N("u64"), N("u64+1"), N("big"), N("u32-1"), N("i32+1"), N("u64-1"), N("i64+1") }
Builds == { <<>>, <<N("abc")>>, <<N("7"), N("x1")>>, <<N("u32+1")>> }
Labels == { L("alpha"), L("beta"), L("rc") }
Slots == {"x", "y", "z", "ep", "pre", "post", "dev"}

\* a shape says which optional parts are present
Shapes == [ {"ep", "pre", "post", "dev"} -> BOOLEAN ]
Make(sh, num, lab, bld) ==
  [ x |-> num["x"], y |-> num["y"], z |-> num["z"],
    ep   |-> IF sh["ep"] THEN (IF num["ep"] = N("0") THEN N("1") ELSE num["ep"]) ELSE <<>>,      \* E >= 1
    pre  |-> IF sh["pre"] THEN <<lab, num["pre"]>> ELSE <<>>,
    post |-> IF sh["post"] THEN <<num["post"]>> ELSE <<>>,
    dev  |-> IF sh["dev"] THEN <<num["dev"]>> ELSE <<>>,
    build |-> bld ]
AllSmall == { Make(sh, num, lab, bld) : sh \in Shapes, num \in [Slots -> SmallNums], lab \in Labels, bld \in Builds }
OneBig == { Make(sh, [ [s \in Slots |-> N("1")] EXCEPT ![slot] = big ], L("rc"), bld)
              : sh \in Shapes, slot \in Slots, big \in BigNums, bld \in {<<>>, <<N("abc")>>} }
Universe == AllSmall \cup OneBig

VARIABLE c
Init == c \in Universe
Next == UNCHANGED c
Spec == Init /\ [][Next]_c

\* the two texts really are what the grammar modules say they are
SemVerTextIsSemVer == SV!IsSemVer(SemVerText(c)) /\ SV!Print(SV!Parse(SemVerText(c))) = SemVerText(c)
PepTextIsNormal == PG!GreedyAccepts(PepText(c)) /\ PG!NormalOf(PepText(c)) = PepText(c)
EmitLine ==
  Emit => PrintT("REPLAY " \o ToJson([ sv |-> SemVerText(c), pep |-> PepText(c), svok |-> SvOk(c), pepok |-> PepOk(c) ]))
=============================================================================
