SPECIFICATION Spec
POSTCONDITION AllConsumed
CHECK_DEADLOCK FALSE
