----------------------------- MODULE Sanitizer -----------------------------
(* The sanitiser of zerv (src/utils/sanitize.rs), twice:                        *)
(*  - a declarative CONTRACT stated on maximal runs of ASCII alphanumerics      *)
(*    (property C16), and                                                       *)
(*  - the pass-by-pass MACHINE that mirrors sanitize_to_string                  *)
(*    (lowercase ; replace runs ; strip zeros ; truncate ; trim).               *)
(* A configuration is [sep, lower, keep, max] with sep = 0 for "no separator"   *)
(* and max = -1 for "no length bound".                                          *)
EXTENDS Text, SequencesExt

\* ---------------------------------------------------------------- contract --
\* maximal runs of ASCII letters/digits, as index intervals, declaratively
RunIntervals(s) ==
  LET n == Len(s) IN
  { iv \in (1..n) \X (1..n) :
      /\ iv[1] <= iv[2]
      /\ \A i \in iv[1]..iv[2] : IsAlnum(s[i])
      /\ (iv[1] = 1 \/ ~IsAlnum(s[iv[1] - 1]))
      /\ (iv[2] = n \/ ~IsAlnum(s[iv[2] + 1])) }

RunsOf(s) ==
  LET ivs == SetToSortSeq(RunIntervals(s), LAMBDA a, b : a[1] < b[1])
  IN  [k \in 1..Len(ivs) |-> SubSeq(s, ivs[k][1], ivs[k][2])]

SegNorm(cfg, seg) ==
  LET l == IF cfg.lower THEN LowerS(seg) ELSE seg
  IN  IF ~cfg.keep /\ AllDigits(l) THEN StripZ(l) ELSE l

\* result without the length bound (F) and without zero stripping (F0)
Full(cfg, s)  == LET r == RunsOf(s) IN Join([k \in 1..Len(r) |-> SegNorm(cfg, r[k])], <<cfg.sep>>)
Full0(cfg, s) == LET r == RunsOf(s) IN
                 Join([k \in 1..Len(r) |-> IF cfg.lower THEN LowerS(r[k]) ELSE r[k]], <<cfg.sep>>)

\* consequences listed in C16 (for a non-alphanumeric separator)
WellFormed(cfg, out) ==
  /\ \A i \in 1..Len(out) : IsAlnum(out[i]) \/ out[i] = cfg.sep
  /\ cfg.lower => \A i \in 1..Len(out) : ~IsUpper(out[i])
  /\ Len(out) > 0 => out[1] # cfg.sep /\ out[Len(out)] # cfg.sep
  /\ \A i \in 1..(Len(out) - 1) : ~(out[i] = cfg.sep /\ out[i + 1] = cfg.sep)
  /\ ~cfg.keep => \A seg \in Range(Split(out, cfg.sep)) : AllDigits(seg) => IsCanonNum(seg)
  /\ cfg.max >= 0 => Len(out) <= cfg.max

\* canonical form of a cut: separators trimmed, all-digit segments stripped
RECURSIVE TrimSep(_, _)
TrimSep(t, sep) ==
  IF Len(t) > 0 /\ t[1] = sep THEN TrimSep(Tail(t), sep)
  ELSE IF Len(t) > 0 /\ t[Len(t)] = sep THEN TrimSep(SubSeq(t, 1, Len(t) - 1), sep)
  ELSE t
Canon(cfg, t) ==
  LET u == TrimSep(t, cfg.sep) IN
  IF u = <<>> THEN <<>>
  ELSE LET p == Split(u, cfg.sep) IN
       Join([k \in 1..Len(p) |-> IF ~cfg.keep /\ AllDigits(p[k]) THEN StripZ(p[k]) ELSE p[k]], <<cfg.sep>>)

\* The set of acceptable results.  Without a bound (or when the full result    *)
\* fits) the answer is unique.  When the bound cuts, C16 fixes the consequences *)
\* but not which cut is taken (before or after zero stripping), so every        *)
\* canonical cut of F or F0 that fits is acceptable.                            *)
Acceptable(cfg, s) ==
  LET F == Full(cfg, s)  F0 == Full0(cfg, s) IN
  IF cfg.max < 0 \/ Len(F) <= cfg.max THEN {F}
  ELSE { c \in { Canon(cfg, Take(G, k)) : G \in {F, F0}, k \in 0..cfg.max } :
           WellFormed(cfg, c) }

Contract(cfg, s, out) == out \in Acceptable(cfg, s)

\* the integer sanitiser
UIntContract(s) == IF AllDigits(s) THEN StripZ(s) ELSE <<>>

\* ----------------------------------------------------------------- machine --
\* pass 2 of the code: every maximal run of non-alphanumerics becomes one
\* separator, leading and trailing separators removed
RECURSIVE ReplaceFrom(_, _, _, _, _)
ReplaceFrom(s, sep, i, lastSep, acc) ==
  IF i > Len(s) THEN acc
  ELSE IF IsAlnum(s[i]) THEN ReplaceFrom(s, sep, i + 1, FALSE, Append(acc, s[i]))
  ELSE IF lastSep THEN ReplaceFrom(s, sep, i + 1, TRUE, acc)
  ELSE ReplaceFrom(s, sep, i + 1, TRUE, Append(acc, sep))
RECURSIVE TrimEnd(_, _)
TrimEnd(t, sep) == IF Len(t) > 0 /\ t[Len(t)] = sep THEN TrimEnd(SubSeq(t, 1, Len(t) - 1), sep) ELSE t

PassLower(cfg, b)   == IF cfg.lower THEN LowerS(b) ELSE b
PassReplace(cfg, b) == TrimSep(ReplaceFrom(b, cfg.sep, 1, FALSE, <<>>), cfg.sep)
PassZeros(cfg, b)   == IF cfg.keep \/ b = <<>> THEN b
                       ELSE LET p == Split(b, cfg.sep) IN
                            Join([k \in 1..Len(p) |-> IF AllDigits(p[k]) THEN StripZ(p[k]) ELSE p[k]], <<cfg.sep>>)
PassCut(cfg, b)     == IF cfg.max >= 0 THEN Take(b, cfg.max) ELSE b
PassTrim(cfg, b)    == TrimSep(b, cfg.sep)

\* order of the passes in the code: replace, lower, zeros, cut, trim, zeros.
\* (Replacing first leaves only ASCII to lower-case; the second zero pass
\* repairs an all-digit segment that the cut may have created, e.g. 00a -> 00.)
PassOrder == <<"replace", "lower", "zeros", "cut", "trim", "zeros">>
ApplyPass(name, cfg, b) ==
  CASE name = "lower"   -> PassLower(cfg, b)
    [] name = "replace" -> PassReplace(cfg, b)
    [] name = "zeros"   -> PassZeros(cfg, b)
    [] name = "cut"     -> PassCut(cfg, b)
    [] name = "trim"    -> PassTrim(cfg, b)
RECURSIVE RunPasses(_, _, _)
RunPasses(cfg, b, i) == IF i > Len(PassOrder) THEN b ELSE RunPasses(cfg, ApplyPass(PassOrder[i], cfg, b), i + 1)
Machine(cfg, s) == RunPasses(cfg, s, 1)
=============================================================================
