---------------------------------- MODULE Cli ----------------------------------
(* The process-level contract of the zerv binary (C13, C14).                         *)
(*  Outcome protocol: a run ends either Ok (status 0, stdout = exactly the requested  *)
(*  result, diagnostics only on stderr) or CleanError (a non-zero exit status - not a  *)
(*  signal -, nothing on stdout, a diagnostic on stderr).  A panic, an abort, a signal, *)
(*  output on failure or a silent failure are the bad outcomes.                       *)
(*  A run is observed as a record o:                                                  *)
(*   [status, signal, out (stdout text, capped), outlen, errlen, panicked, diag,      *)
(*    fmt ("semver" | "pep440" | "zerv" | "template" | "other"), verbose, quiet_same] *)
EXTENDS Text
SV == INSTANCE SemVerGrammar
PG == INSTANCE Pep440Grammar

LF == 10
\* stdout of a successful run that asked for one version string: that string and a newline
OneVersionLine(o) ==
  /\ o.outlen = Len(o.out) /\ Len(o.out) >= 2 /\ o.out[Len(o.out)] = LF
  /\ LET ver == SubSeq(o.out, 1, Len(o.out) - 1) IN
       /\ \A i \in 1..Len(ver) : ver[i] # LF
       /\ o.fmt = "semver" => SV!IsSemVer(ver)
       /\ o.fmt = "pep440" => (PG!GreedyAccepts(ver) /\ PG!NormalOf(ver) = ver)

Outcome(o) ==
  IF o.signal # 0 THEN "signal"
  ELSE IF o.panicked THEN "panic"
  ELSE IF o.status = 0 THEN
       (IF o.diag THEN "diagnostics-on-stdout"
        ELSE IF o.fmt \in {"semver", "pep440"} /\ ~OneVersionLine(o) THEN "stdout-is-not-exactly-the-result"
        ELSE IF o.verbose /\ ~o.quiet_same THEN "verbose-changes-stdout"
        ELSE "Ok")
  ELSE IF o.outlen > 0 THEN "result-on-failure"
  ELSE IF o.errlen = 0 THEN "silent-failure"
  ELSE "CleanError"
Acceptable(o) == Outcome(o) \in {"Ok", "CleanError"}

\* ------------------------------------------------------------ git fault plans --
FaultModes == <<"fail-empty", "fail-generic", "fail-notrepo", "fail-nohead", "fail-perm", "fail-corrupt", "fail-shallow",
                "fail-nonutf8", "garbage-nonutf8", "garbage-text", "garbage-number", "garbage-negative", "garbage-huge",
                "garbage-empty", "killed">>

\* ----------------------------------------------------------- argument classes --
ValueClasses == <<"valid", "empty", "non-ascii", "long", "minus-one", "two-pow-32", "two-pow-64", "word", "bad-ron",
                  "bad-json", "bad-template", "template-bad-strftime", "template-hostile-call", "nul", "leading-dash",
                  "valid-upper", "valid-capitalised", "valid-padded">>   \* a valid value of THIS option in another spelling
StdinClasses == <<"none", "empty", "valid-ron", "truncated-ron", "binary", "plain-version", "huge-numbers">>
=============================================================================
