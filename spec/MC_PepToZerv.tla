------------------------------- MODULE MC_PepToZerv -------------------------------
(* A universe of PEP 440 values (epoch, 1-5 release numbers, pre, post, dev, local      *)
(* segments): the conversion to Zerv composed with Render predicts `zerv render          *)
(* <version> -f pep440` in both output formats.  Invariants: the PEP 440 rendering is    *)
(* the version itself (normal form), the SemVer rendering is SemVer; with at most three  *)
(* release numbers the SemVer rendering has them as major.minor.patch.                   *)
EXTENDS ToZerv, TLC, Json
SVG == INSTANCE SemVerGrammar
PPG == INSTANCE Pep440Grammar
CONSTANTS Emit
T(t) == [num |-> FALSE, n |-> 0, t |-> t]
Nm(k) == [num |-> TRUE, n |-> k, t |-> <<>>]
Universe ==
  { [epoch |-> e, rel |-> r, pre |-> p, post |-> po, dev |-> d, local |-> lo]
    : e \in {0, 2}, r \in { <<1>>, <<1, 0>>, <<0, 0, 9>>, <<1, 2, 3, 4>>, <<1, 2, 3, 0, 5>> },
      p \in { [l |-> "none", n |-> NONE], [l |-> "alpha", n |-> 0], [l |-> "beta", n |-> 3], [l |-> "rc", n |-> 1] },
      po \in {NONE, 0, 7}, d \in {NONE, 0, 4}, lo \in { <<>>, <<T(<<97,98,99>>)>>, <<Nm(7), T(<<120,49>>)>>, <<T(<<117,98,117,110,116,117>>), Nm(20), Nm(4)>> } }
VARIABLE pv
Init == pv \in Universe
Next == UNCHANGED pv
Spec == Init /\ [][Next]_pv
PepIsFixedPoint == PepRenderedPep440(pv) = PepString(pv) /\ PPG!NormalOf(PepString(pv)) = PepString(pv)
SemVerIsSemVer == SVG!IsSemVer(PepRenderedSemVer(pv))
EmitLine == Emit => PrintT("REPLAY " \o ToJson([ s |-> PepString(pv), semver |-> PepRenderedSemVer(pv), pep440 |-> PepRenderedPep440(pv), short |-> Len(pv.rel) <= 3 ]))
=============================================================================
