----------------------------- MODULE Trace_Output -----------------------------
(* C01 on observed output lines: every recorded stdout of a successful run with     *)
(* --output-format semver | pep440 is exactly the prefix followed by a string of    *)
(* the SemVer language (resp. a PEP 440 normal form), ASCII only, one line; zerv's   *)
(* own `check` accepts it; and (preset schemas) re-rendering it in the same format   *)
(* returns it unchanged.                                                            *)
EXTENDS Text, TLC, Json, IOUtils
SV == INSTANCE SemVerGrammar
PG == INSTANCE Pep440Grammar
Rec == ndJsonDeserialize(IOEnv.TRACE)
VARIABLE l
Init == l = 1
Reason(e) ==
  IF e.k = "panic" THEN "panic"
  ELSE LET t == e.text  p == e.prefix IN
    IF ~StartsWith(t, p) THEN "prefix"
    ELSE LET ver == Drop(t, Len(p)) IN
      IF \E i \in 1..Len(t) : t[i] \in {10, 13} THEN "more-than-one-line"
      ELSE IF ~AllAscii(ver) THEN "non-ascii"
      ELSE IF e.fmt = "semver" /\ ~SV!IsSemVer(ver) THEN "not-semver"
      ELSE IF e.fmt = "semver" /\ ver[1] = 118 THEN "not-semver"            \* the leading v is zerv's extension, never emitted
      ELSE IF e.fmt = "pep440" /\ ~PG!GreedyAccepts(ver) THEN "not-pep440"
      ELSE IF e.fmt = "pep440" /\ PG!NormalOf(ver) # ver THEN "pep440-not-normalised"
      ELSE IF ~e.check THEN "zerv-check-rejects-it"
      ELSE IF e.preset /\ ~(e.rerender.ok /\ e.rerender.s = ver) THEN "rerender-changes-it"
      ELSE "ok"
Next == /\ l <= Len(Rec)
        /\ LET why == Reason(Rec[l]) IN IF why = "ok" THEN TRUE ELSE PrintT("MISMATCH " \o ToString(l) \o " " \o why)
        /\ l' = l + 1
Spec == Init /\ [][Next]_l
AllConsumed == IF TLCGet("stats").diameter = Len(Rec) + 1 THEN TRUE
               ELSE PrintT("UNCONSUMED " \o ToString(TLCGet("stats").diameter)) /\ FALSE
=============================================================================
