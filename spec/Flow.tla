--------------------------------- MODULE Flow ---------------------------------
(* `zerv flow` (src/cli/flow): two passes of the version machine.                  *)
(*   AsIs     : the version "as is" - VCS overrides, tag, --post (default: the     *)
(*              current post), no bumps                                            *)
(*   FindRule : the first branch rule, in list order, whose pattern matches        *)
(*   Resolve  : label / number / post mode: explicit flag > rule > default         *)
(*   Bumped   : the second pass with the flow bumps, guarded by "dirty or ahead"   *)
(* Numbers are integers; HASH = -3 stands for the branch-name hash (opaque, checked *)
(* through its contract) and NOW = -2 for the wall clock.                          *)
EXTENDS ZervOps, Text

HASH == -3
NOW  == -2

\* ---------------------------------------------------------------- branch rules --
\* rule = [pattern (text), label, num (NONE = take it from the branch), mode]
STAR == 42
SLASH == 47
IsStar(p) == p = <<STAR>>
IsPrefixRule(p) == Len(p) >= 2 /\ p[Len(p) - 1] = SLASH /\ p[Len(p)] = STAR /\ ~IsStar(p)
\* "prefix/*" matches only names under "prefix/" (and longer than it); "*" any non-empty name
PrefixOf(p) == SubSeq(p, 1, Len(p) - 1)                    \* includes the slash
Matches(p, b) == IF IsStar(p) THEN b # <<>>
                 ELSE IF IsPrefixRule(p) THEN StartsWith(b, PrefixOf(p)) /\ Len(b) > Len(PrefixOf(p))
                 ELSE p = b
FirstMatch(rules, b) ==
  LET ms == { i \in 1..Len(rules) : Matches(rules[i].pattern, b) } IN
  IF ms = {} THEN 0 ELSE CHOOSE i \in ms : \A j \in ms : i <= j
\* first all-digit path segment after the prefix (or of the whole name for "*"), as text
FirstDigitSegment(t) ==
  LET segs == Split(t, SLASH)
      ks == { q \in 1..Len(segs) : AllDigits(segs[q]) } IN
  IF ks = {} THEN <<>> ELSE segs[CHOOSE q \in ks : \A j \in ks : q <= j]
SegmentFor(rule, b) == IF IsStar(rule.pattern) THEN FirstDigitSegment(b)
                       ELSE IF IsPrefixRule(rule.pattern) THEN FirstDigitSegment(Drop(b, Len(PrefixOf(rule.pattern))))
                       ELSE <<>>
\* value of a short digit text (branch numbers beyond u32 do not count: zerv reads them as u32)
RECURSIVE DigitsVal(_, _, _)
DigitsVal(t, i, acc) == IF i > Len(t) THEN acc ELSE DigitsVal(t, i + 1, acc * 10 + (t[i] - 48))
\* (the first all-digit segment decides even when it does not fit: no later segment is tried; the
\* recorders produce no values in 2^30 .. 2^32-1, which TLC integers cannot carry)
U32Text == <<52,50,57,52,57,54,55,50,57,53>>
SegNum(t) == IF t = <<>> \/ NumCmp(StripZ(t), U32Text) > 0 THEN NONE ELSE DigitsVal(StripZ(t), 1, 0)

\* resolved = [label, num (NONE = hash), mode]
Resolve(f, rules, hasBranch, b) ==
  LET i == IF hasBranch THEN FirstMatch(rules, b) ELSE 0
      rl == IF i = 0 THEN "alpha" ELSE rules[i].label
      rn == IF i = 0 THEN NONE ELSE IF rules[i].num # NONE THEN rules[i].num ELSE SegNum(SegmentFor(rules[i], b))
      rm == IF i = 0 THEN "commit" ELSE rules[i].mode
  IN [ label |-> IF f.label # "" THEN f.label ELSE rl,
       num   |-> IF f.num # NONE THEN f.num ELSE rn,
       mode  |-> IF f.mode # "" THEN f.mode ELSE rm ]

\* ------------------------------------------------------------------- the passes --
\* f = flow inputs: [tag (version vars), post (NONE | n), distance, dirty, nodirty, clean,
\*                   hasBranch, branch (text), label, num, mode, hlen, rules, suffix]
FlowConflict(f) == \/ f.dirty /\ f.nodirty
                   \/ f.clean /\ (f.distance # NONE \/ f.dirty \/ f.nodirty)
                   \/ f.hlen < 1 \/ f.hlen > 10
\* VCS context after the overrides of a pass; forceDirty is the tag-mode rule of pass two
CtxOf(f, forceDirty) ==
  LET d0 == IF f.dirty \/ forceDirty THEN 1 ELSE IF f.nodirty THEN 0 ELSE NONE
  IN IF f.clean THEN [distance |-> NONE, dirty |-> 0] ELSE [distance |-> f.distance, dirty |-> d0]
\* pass one: the tag's variables with the post override
AsIs(f) == IF f.post # NONE THEN [f.tag EXCEPT !.post = f.post] ELSE f.tag
Active(cx) == cx.dirty = 1 \/ (cx.distance # NONE /\ cx.distance > 0)

FlowBumps(f, r, cur, cx) ==
  LET act == Active(cx) IN
  [ epoch |-> NONE, major |-> NONE, minor |-> NONE,
    patch  |-> IF cur.pre.l = "none" /\ act THEN 1 ELSE NONE,
    label  |-> IF act THEN r.label ELSE "",
    prenum |-> IF act THEN (IF r.num # NONE THEN r.num ELSE HASH) ELSE NONE,
    \* commit mode adds the distance (an unset distance renders as nothing: no bump at all)
    post   |-> IF act THEN (IF r.mode = "commit" THEN cx.distance ELSE 1) ELSE NONE,
    dev    |-> IF (r.mode = "tag" /\ act) \/ (r.mode = "commit" /\ cx.dirty = 1) THEN NOW ELSE NONE ]
\* overrides of pass two: only the post (explicit or the current one)
FlowOverrides(cur) == [epoch |-> NONE, major |-> NONE, minor |-> NONE, patch |-> NONE, prenum |-> NONE,
                       post |-> cur.post, dev |-> NONE, label |-> ""]
RECURSIVE WalkFrom(_, _, _, _)
WalkFrom(vv, order, i, args) ==
  IF i > Len(order) THEN vv
  ELSE IF order[i] \in {"Core", "ExtraCore", "Build"} THEN WalkFrom(vv, order, i + 1, args)
  ELSE WalkFrom(ProcByName(vv, order, order[i], args), order, i + 1, args)
NormalizeV(vv) == IF vv.epoch = 0 THEN [vv EXCEPT !.epoch = NONE] ELSE vv

\* the whole flow: [err, v, cx, r]
FlowResult(f) ==
  IF FlowConflict(f) THEN [err |-> TRUE, v |-> f.tag, cx |-> CtxOf(f, FALSE), r |-> [label |-> "", num |-> NONE, mode |-> ""]]
  ELSE
    LET cx1 == CtxOf(f, FALSE)
        cur == AsIs(f)
        r   == Resolve(f, f.rules, f.hasBranch, f.branch)
        force == ~f.dirty /\ ~f.nodirty /\ r.mode = "tag" /\ Active(cx1)
        cx2 == CtxOf(f, force)
        args == [ov |-> FlowOverrides(cur), bp |-> FlowBumps(f, r, cur, cx2)]
    IN [err |-> FALSE, v |-> NormalizeV(WalkFrom(cur, DefaultOrder, 1, args)), cx |-> cx2, r |-> r]

\* ------------------------------------------------- the component law of C04 ----
\* stated directly, not through the walk
Law(f) ==
  LET cx1 == CtxOf(f, FALSE)
      r   == Resolve(f, f.rules, f.hasBranch, f.branch)
      ahead == cx1.distance # NONE /\ cx1.distance > 0
      dirty == cx1.dirty = 1
      act == dirty \/ ahead
      t == AsIs(f)
  IN IF ~act THEN t                                   \* nothing changed at a clean tagged commit
     ELSE [ epoch |-> t.epoch, major |-> t.major, minor |-> t.minor,
            patch |-> IF t.pre.l = "none" THEN t.patch + 1 ELSE t.patch,
            pre   |-> [l |-> r.label, n |-> IF r.num # NONE THEN r.num ELSE HASH],
            post  |-> IF r.mode = "commit" /\ cx1.distance = NONE THEN t.post      \* dirty, distance unknown
                      ELSE Or0(t.post) + (IF r.mode = "commit" THEN cx1.distance ELSE 1),
            dev   |-> IF dirty \/ (r.mode = "tag" /\ ahead) THEN NOW ELSE NONE ]
=============================================================================
