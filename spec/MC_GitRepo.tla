------------------------------- MODULE MC_GitRepo -------------------------------
(* Explores repositories reachable by at most MaxOps git operations and prints, for *)
(* each distinct repository state, one witness operation sequence with the facts    *)
(* zerv must report under each input format.  The operation history is hidden from  *)
(* the state identity by a VIEW.                                                     *)
EXTENDS GitRepo, Json, SequencesExt
CONSTANTS MaxOps, Emit, NTags, Rewrite   \* Rewrite: also reset --hard / commit --amend / tag -f
\* tag names: v1.0.0 (both formats), 1.0.0a1 (PEP 440 only), main (no version, and the name of a branch:
\* the short name is then ambiguous for git), v2.0.0-rc.1 (SemVer only), 1.0.0 (equal to v1.0.0), v1.1.0
TagPool == << <<118,49,46,48,46,48>>, <<49,46,48,46,48,97,49>>, <<109,97,105,110>>,
              <<118,50,46,48,46,48,45,114,99,46,49>>, <<49,46,48,46,48>>, <<118,49,46,49,46,48>> >>
MCTagNames == { TagPool[i] : i \in 1..NTags }
VARIABLE hist
vars == <<parents, branches, head, tags, hist>>
Init == GInit /\ hist = <<>>
Op(name, arg) == hist' = Append(hist, [op |-> name, arg |-> arg])
NoArg == <<>>
Next == /\ Len(hist) < MaxOps
        /\ \/ Commit /\ Op("commit", NoArg)
           \/ \E b \in BranchNames : Branch(b) /\ Op("branch", b)
           \/ \E b \in DOMAIN branches : Checkout(b) /\ Op("checkout", b)
           \/ \E c \in 1..N : Detach(c) /\ Op("detach", c)
           \/ \E b \in DOMAIN branches : MergeFF(b) /\ Op("mergeff", b)
           \/ \E b \in DOMAIN branches : MergeNoFF(b) /\ Op("merge", b)
           \/ \E t \in TagNames : Tag(t, FALSE) /\ Op("tag", t)
           \/ \E t \in TagNames : Tag(t, TRUE) /\ Op("atag", t)
           \/ \E t \in TagNames : DeleteTag(t) /\ Op("deltag", t)
           \/ Rewrite /\ \E c \in 1..N : Reset(c) /\ Op("reset", c)
           \/ Rewrite /\ Amend /\ Op("amend", NoArg)
           \/ Rewrite /\ \E t \in TagNames : (\E x \in tags : x.name = t /\ x.c # HeadCommit) /\ MoveTag(t, FALSE) /\ Op("movetag", t)
           \/ Rewrite /\ \E t \in TagNames : (\E x \in tags : x.name = t /\ x.c # HeadCommit) /\ MoveTag(t, TRUE) /\ Op("moveatag", t)
Spec == Init /\ [][Next]_vars
View == <<parents, branches, head, tags>>

Formats == {"auto", "semver", "pep440"}
\* sanity of the declarative facts
FactsSane ==
  \A fmt \in Formats :
     /\ (Nearest(fmt) = {}) <=> ~\E c \in Anc(HeadCommit) : ValidAt(c, fmt).ts # {}
     /\ \A c, d \in Nearest(fmt) : c # d => (c \notin Anc(d) /\ d \notin Anc(c))
     /\ \A e \in Expected(fmt) : e.distance >= 0 /\ (e.distance = 0 <=> e.c = HeadCommit)
Interesting == \/ \E c \in 1..N : Len(parents[c]) = 2                         \* a merge commit
               \/ \E x, y \in tags : x # y /\ x.c = y.c                          \* two tags on a commit
               \/ \E x \in tags : x.c \notin Anc(HeadCommit)                     \* a tag unreachable from HEAD
               \/ ~OnBranch
               \/ \E c \in 1..N : \A b \in DOMAIN branches : c \notin Anc(branches[b])   \* a commit no branch reaches (rewritten history)
EmitLine ==
  (Emit /\ hist # <<>>) =>
    PrintT("REPLAY " \o ToJson([ ops |-> hist, n |-> N, headc |-> HeadCommit, branch |-> BranchReported,
             interesting |-> Interesting,
             exp |-> [f \in Formats |-> SetToSeq(Expected(f))],
             \* what a linked work tree detached at commit c must report
             expAt |-> [c \in 1..N |-> [f \in Formats |-> SetToSeq(ExpectedFrom(c, f))]] ]))
=============================================================================
