------------------------------ MODULE Trace_Zerv ------------------------------
(* Validates recorded `zerv version ... --output-format zerv` runs (random flag    *)
(* subsets, random amounts, stdin objects, presets and custom schemas) against    *)
(* ZervModel.  For every event the trace spec loads the recorded arguments, takes *)
(* the machine's own actions (Next) until it is done, and then judges the         *)
(* recorded observation against the machine's final state.                        *)
EXTENDS ZervModel, Json, IOUtils
Rec == ndJsonDeserialize(IOEnv.TRACE)
VARIABLE l
tvars == <<a, ra, v, ctx, sch, pc, li, k, specs, err, l>>

Load(args) == /\ a' = args /\ ra' = [ov |-> args.ov, bp |-> args.bp] /\ v' = args.src.v /\ ctx' = args.src.ctx /\ sch' = args.src.sch
              /\ pc' = "validate" /\ li' = 0 /\ k' = 0 /\ specs' = <<>> /\ err' = FALSE
TraceInit == l = 1 /\ InitWith(Rec[1].a)

Matches(e) ==
  IF pc = "error" THEN e.out.kind = "err"
  ELSE /\ e.out.kind = "ok"
       /\ e.out.v = v /\ e.out.ctx = ctx /\ e.out.sch = sch
Step  == ~Done /\ l <= Len(Rec) /\ Next /\ l' = l
Judge == /\ Done /\ l <= Len(Rec)
         /\ IF Matches(Rec[l]) THEN TRUE ELSE PrintT("MISMATCH " \o ToString(l))
         /\ l' = l + 1
         /\ IF l + 1 <= Len(Rec) THEN Load(Rec[l + 1].a)
            ELSE /\ PrintT("CONSUMED " \o ToString(l))
                 /\ UNCHANGED <<a, ra, v, ctx, sch, pc, li, k, specs, err>>
TraceNext == Step \/ Judge
Spec == TraceInit /\ [][TraceNext]_tvars
\* the driver requires the CONSUMED line: every event was judged
AllConsumed == TLCGet("stats").diameter > 0
=============================================================================
