-------------------------------- MODULE Convert --------------------------------
(* Format conversion (zerv render) on zerv's canonical SemVer shape               *)
(*   X.Y.Z[-[epoch.E.][alpha|beta|rc.N.][post.P.][dev.D]][+ids]                    *)
(* and its PEP 440 image [E!]X.Y.Z[{a|b|rc}N][.postP][.devD][+ids], as stated by   *)
(* C07.  Numbers are numeral texts of any size so that the u32 / u64 boundaries    *)
(* can be expressed.  A canonical version is a record                              *)
(*   [x, y, z, ep, pre, post, dev, build] with <<>> for an absent part,            *)
(*   pre = <<label, n>>, post = <<p>>, dev = <<d>>, ep = the numeral or <<>>.      *)
EXTENDS Text, Functions

L(str) == CASE str = "epoch" -> <<101,112,111,99,104>> [] str = "post" -> <<112,111,115,116>>
            [] str = "dev" -> <<100,101,118>> [] str = "alpha" -> <<97,108,112,104,97>>
            [] str = "beta" -> <<98,101,116,97>> [] str = "rc" -> <<114,99>>
            [] str = "a" -> <<97>> [] str = "b" -> <<98>>
Short(label) == IF label = L("alpha") THEN L("a") ELSE IF label = L("beta") THEN L("b") ELSE L("rc")

SvIds(c) == (IF c.ep = <<>> THEN <<>> ELSE <<L("epoch"), c.ep>>)
            \o (IF c.pre = <<>> THEN <<>> ELSE <<c.pre[1], c.pre[2]>>)
            \o (IF c.post = <<>> THEN <<>> ELSE <<L("post"), c.post[1]>>)
            \o (IF c.dev = <<>> THEN <<>> ELSE <<L("dev"), c.dev[1]>>)
SemVerText(c) ==
  Join(<<c.x, c.y, c.z>>, <<DOT>>)
  \o (IF SvIds(c) = <<>> THEN <<>> ELSE <<DASH>> \o Join(SvIds(c), <<DOT>>))
  \o (IF c.build = <<>> THEN <<>> ELSE <<PLUS>> \o Join(c.build, <<DOT>>))
PepText(c) ==
  (IF c.ep = <<>> THEN <<>> ELSE c.ep \o <<BANG>>)
  \o Join(<<c.x, c.y, c.z>>, <<DOT>>)
  \o (IF c.pre = <<>> THEN <<>> ELSE Short(c.pre[1]) \o c.pre[2])
  \o (IF c.post = <<>> THEN <<>> ELSE <<DOT>> \o L("post") \o c.post[1])
  \o (IF c.dev = <<>> THEN <<>> ELSE <<DOT>> \o L("dev") \o c.dev[1])
  \o (IF c.build = <<>> THEN <<>> ELSE <<PLUS>> \o Join(c.build, <<DOT>>))

U32T == <<52,50,57,52,57,54,55,50,57,53>>
U64T == <<49,56,52,52,54,55,52,52,48,55,51,55,48,57,53,53,49,54,49,53>>
Fits(t, lim) == NumCmp(t, lim) <= 0
Numerals(c) == {c.x, c.y, c.z} \cup (IF c.ep = <<>> THEN {} ELSE {c.ep}) \cup (IF c.pre = <<>> THEN {} ELSE {c.pre[2]})
               \cup (IF c.post = <<>> THEN {} ELSE {c.post[1]}) \cup (IF c.dev = <<>> THEN {} ELSE {c.dev[1]})
SvOk(c)  == \A t \in Numerals(c) : Fits(t, U64T)        \* representable on SemVer-only paths
PepOk(c) == \A t \in Numerals(c) : Fits(t, U32T)        \* representable where PEP 440 is involved

\* the maximal digit runs of a text, in order: used for "no number silently replaced"
RECURSIVE DigitRunsFrom(_, _, _, _)
DigitRunsFrom(s, i, cur, acc) ==
  IF i > Len(s) THEN (IF cur = <<>> THEN acc ELSE Append(acc, cur))
  ELSE IF IsDigit(s[i]) THEN DigitRunsFrom(s, i + 1, Append(cur, s[i]), acc)
  ELSE DigitRunsFrom(s, i + 1, <<>>, IF cur = <<>> THEN acc ELSE Append(acc, cur))
DigitRuns(s) == DigitRunsFrom(s, 1, <<>>, <<>>)

\* an observed conversion result is [ok, s]
\* exact: must succeed with exactly this text
Exactly(r, t) == r.ok /\ r.s = t
\* unrepresentable input: rejected, or (if accepted) no numeral is replaced by another one:
\* the numerals of the output are those of the exact rendering, as a multiset
Bag(seq) == [x \in Range(seq) |-> Cardinality({i \in 1..Len(seq) : seq[i] = x})]
RejectedOrPreserved(r, t) == ~r.ok \/ Bag(DigitRuns(r.s)) = Bag(DigitRuns(t))
=============================================================================
