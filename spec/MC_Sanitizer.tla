---------------------------- MODULE MC_Sanitizer ----------------------------
(* Exhaustive model of the sanitiser over all strings up to MaxLen over         *)
(* Alphabet: the state is the input text, the only action appends a character.  *)
(* In every state the pass machine is compared with the declarative contract   *)
(* for every configuration, and (when Emit) one REPLAY line is printed that     *)
(* carries the acceptable results, to be replayed into Sanitizer::sanitize.     *)
EXTENDS Sanitizer, TLC, Json

CONSTANTS Alphabet, MaxLen, Emit

Seps  == <<46, 45, 95>>
Maxes == <<-1, 0, 1, 3, 5>>
Cfgs  == [ i \in 1..(3 * 2 * 2 * 5) |->
            LET j == i - 1 IN
            [ sep   |-> Seps[(j % 3) + 1],
              lower |-> ((j \div 3) % 2) = 1,
              keep  |-> ((j \div 6) % 2) = 1,
              max   |-> Maxes[(j \div 12) + 1] ] ]

VARIABLE s
Init == s = <<>>
Next == /\ Len(s) < MaxLen
        /\ \E c \in Alphabet : s' = Append(s, c)
Spec == Init /\ [][Next]_s

\* design-level theorem: the machine meets the contract and all its consequences
MachineMeetsContract ==
  \A i \in 1..Len(Cfgs) :
    LET cfg == Cfgs[i]  out == Machine(cfg, s) IN
      /\ Contract(cfg, s, out)
      /\ WellFormed(cfg, out)
      /\ Machine(cfg, out) = out                     \* idempotence
      /\ \A a \in Acceptable(cfg, s) : WellFormed(cfg, a)

UIntOk == LET u == UIntContract(s) IN u = <<>> \/ IsCanonNum(u)

EmitLine ==
  Emit => PrintT("REPLAY " \o ToJson([ s |-> s,
             acc |-> [ i \in 1..Len(Cfgs) |-> SetToSeq(Acceptable(Cfgs[i], s)) ],
             uint |-> UIntContract(s) ]))

EmitCfgs == PrintT("CFGS " \o ToJson(Cfgs))
ASSUME EmitCfgs
=============================================================================
