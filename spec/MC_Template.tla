------------------------------- MODULE MC_Template -------------------------------
(* Every value text up to MaxLen over a small alphabet, with the expected results of *)
(* the determined template functions (sanitize presets and custom parameters,        *)
(* prefix, prefix_if) for replay through `--output-template`.                        *)
EXTENDS Template, TLC, Json
CONSTANTS Alphabet, MaxLen, Emit
VARIABLE s
Init == s = <<>>
Next == Len(s) < MaxLen /\ \E c \in Alphabet : s' = Append(s, c)
Spec == Init /\ [][Next]_s
Custom == << [sep |-> 45, lower |-> TRUE, keep |-> FALSE, max |-> -1], [sep |-> 95, lower |-> FALSE, keep |-> TRUE, max |-> 3],
             [sep |-> 46, lower |-> FALSE, keep |-> FALSE, max |-> 2] >>
EmitLine ==
  Emit => PrintT("REPLAY " \o ToJson([ s |-> s,
     dotted |-> Full(SemverSan, s), lower_dotted |-> Full(LocalSan, s), uint |-> UIntContract(s),
     custom |-> [k \in 1..Len(Custom) |-> SetToSeq(Acceptable(Custom[k], s))],
     prefix |-> [n \in 1..4 |-> Take(s, n - 1)],
     prefix_if |-> IF s = <<>> THEN <<>> ELSE <<43>> \o s ]))
EmitCustom == PrintT("CUSTOM " \o ToJson(Custom))
ASSUME EmitCustom
\* the functions' contracts are consistent with the sanitiser's design theorem
Consistent == \A k \in 1..Len(Custom) : \A a \in Acceptable(Custom[k], s) : SanitizeOk(s, [kind |-> "custom", sep |-> Custom[k].sep,
                  lower |-> Custom[k].lower, keep |-> Custom[k].keep, max |-> Custom[k].max], a)
=============================================================================
