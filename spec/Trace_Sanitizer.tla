--------------------------- MODULE Trace_Sanitizer ---------------------------
(* Validates a recorded trace of Sanitizer::sanitize calls (random Unicode      *)
(* inputs, random settings) against the Sanitizer contract.  One event per      *)
(* call; a mismatching event is reported (MISMATCH <line>) and the trace goes   *)
(* on, so that one finding cannot hide the next; the post-condition requires    *)
(* every event to have been consumed.                                           *)
EXTENDS Sanitizer, TLC, Json, IOUtils

Rec == ndJsonDeserialize(IOEnv.TRACE)

VARIABLE l
Init == l = 1

SanOk(e) ==
  LET cfg == [sep |-> e.cfg.sep, lower |-> e.cfg.lower, keep |-> e.cfg.keep, max |-> e.cfg.max] IN
  /\ ~e.panic
  /\ e.out2 = e.out                                    \* idempotence, as observed
  /\ cfg.max >= 0 => Len(e.out) <= cfg.max
  /\ cfg.sep # 0 => /\ Contract(cfg, e["in"], e.out)
                    /\ WellFormed(cfg, e.out)

UIntOk(e) ==
  /\ ~e.panic
  /\ LET s == e["in"] IN
     \* surrounding white space is outside the statement ("a purely numeric input")
     IF Len(s) > 0 /\ (s[1] \in {32, 9, 10, 13} \/ s[Len(s)] \in {32, 9, 10, 13}) THEN TRUE
     ELSE e.out = UIntContract(s)

EventOk(e) == CASE e.k = "san" -> SanOk(e) [] e.k = "uint" -> UIntOk(e) [] OTHER -> FALSE

Next == /\ l <= Len(Rec)
        /\ IF EventOk(Rec[l]) THEN TRUE ELSE PrintT("MISMATCH " \o ToString(l))
        /\ l' = l + 1
Spec == Init /\ [][Next]_l

AllConsumed == IF TLCGet("stats").diameter = Len(Rec) + 1 THEN TRUE
               ELSE PrintT("UNCONSUMED " \o ToString(TLCGet("stats").diameter)) /\ FALSE
=============================================================================
