--------------------------------- MODULE MC_Cli ---------------------------------
(* Generation for C13.                                                               *)
(*  Mode "plans": a run of the binary is a sequence of K git sub-process calls        *)
(*  (K is measured per scenario by the driver); the machine steps through the calls   *)
(*  and may inject a fault (any mode) at a call while its budget lasts.  Every         *)
(*  completed walk is one fault plan.                                                 *)
(*  Mode "args": one class per (sub-command, flag, value class, stdin class, -v).     *)
EXTENDS Cli, TLC, Json, IOUtils
CONSTANTS Mode, MaxFaults
\* measured by the driver on the current build: K (git calls of a fault-free run) per scenario and the
\* number of options per sub-command; passed as a JSON file named in the environment
Params == JsonDeserialize(IOEnv.ZV_PARAMS)
Ks == Params.ks
NFlags == Params.nflags

VARIABLES sc, k, faults, done
vars == <<sc, k, faults, done>>
\* ---- plans ----
PInit == /\ Mode = "plans" /\ sc \in 1..Len(Ks) /\ k = 1 /\ faults = <<>> /\ done = FALSE
Pass == /\ ~done /\ k <= Ks[sc] /\ k' = k + 1 /\ UNCHANGED <<sc, faults, done>>
Fail(m) == /\ ~done /\ k <= Ks[sc] /\ Len(faults) < MaxFaults
           /\ faults' = Append(faults, [at |-> k, mode |-> m]) /\ k' = k + 1 /\ UNCHANGED <<sc, done>>
Finish == /\ ~done /\ k > Ks[sc] /\ done' = TRUE /\ UNCHANGED <<sc, k, faults>>
PNext == Pass \/ (\E i \in 1..Len(FaultModes) : Fail(FaultModes[i])) \/ Finish
\* ---- argument classes ----
SubCommands == <<"version", "flow", "render", "check">>
AInit == /\ Mode = "args" /\ sc \in 1..Len(SubCommands) /\ k = 0 /\ faults = <<>> /\ done = FALSE
\* choose flag, value class, stdin class, verbosity in one step (k = flag index)
ANext == /\ ~done /\ \E fl \in 1..NFlags[sc], vc \in 1..Len(ValueClasses), st \in 1..Len(StdinClasses), vb \in BOOLEAN :
              /\ k' = fl /\ faults' = <<[vc |-> ValueClasses[vc], stdin |-> StdinClasses[st], verbose |-> vb]>>
              /\ done' = TRUE /\ sc' = sc
Init == PInit \/ AInit
Next == IF Mode = "plans" THEN PNext ELSE ANext
Spec == Init /\ [][Next]_vars
EmitLine ==
  done => PrintT("REPLAY " \o ToJson(IF Mode = "plans" THEN [kind |-> "plan", scenario |-> sc, faults |-> faults]
                                     ELSE [kind |-> "args", sub |-> SubCommands[sc], flag |-> k, vc |-> faults[1].vc,
                                           stdin |-> faults[1].stdin, verbose |-> faults[1].verbose]))
=============================================================================
