----------------------------- MODULE Trace_Order -----------------------------
(* Validates recorded comparisons (cmp, ==, reverse cmp), sort results and       *)
(* find_max_version_tag results for SemVer and PEP 440 against the order specs.  *)
EXTENDS SemVerOrder, TLC, Json, IOUtils
P == INSTANCE Pep440Order
Rec == ndJsonDeserialize(IOEnv.TRACE)
VARIABLE l
Init == l = 1

SvVal(s) == Parse(s)
PepVal(s) == P!Greedy(s)
SvOk(s) == IsSemVer(s) /\ CoreFits(s)
PepOk(s) == P!GreedyAccepts(s) /\ P!AllFitU32(P!Greedy(s))

\* Representable strings must be compared; strings of the language whose numbers are beyond the
\* representable range may be rejected (C08 / C09 decide that) - but when zerv accepts them and answers,
\* the answer must still be the order of the specification (numerals of any size compare by value).
CmpRow(e, ok(_), lang(_), cmp(_, _)) ==
  /\ (ok(e.a) /\ ok(e.b)) => ~e.panic
  /\ (lang(e.a) /\ lang(e.b) /\ ~e.panic) =>
        (e.cmp = cmp(e.a, e.b) /\ e.rcmp = -e.cmp /\ (e.eq <=> e.cmp = 0))
SvC(a, b) == SvCmp(SvVal(a), SvVal(b))
PepC(a, b) == P!PepCmp(PepVal(a), PepVal(b))

Sorted(e, cmp(_, _)) == ~e.panic /\ \A k \in 1..(Len(e.sorted) - 1) : cmp(e.sorted[k], e.sorted[k + 1]) <= 0

\* the tag chosen is a greatest element of the valid tags
MaxRow(e, ok(_), cmp(_, _)) ==
  LET valid == { k \in 1..Len(e.tags) : ok(e.tags[k]) } IN
  /\ ~e.panic
  /\ IF valid = {} THEN ~e.some
     ELSE /\ e.some
          /\ \E k \in valid : e.tags[k] = e.max
          /\ \A k \in valid : cmp(e.tags[k], e.max) <= 0

\* strings whose numbers cannot be represented may be rejected by the parsers; rows that
\* contain one are skipped here (they are judged by C08 / C09)
AllOk(list, ok(_)) == \A k \in 1..Len(list) : ok(list[k])
Strict(s, ok(_), lang(_)) == lang(s) => ok(s)      \* in the language => representable
EventOk(e) ==
  CASE e.k = "svcmp"   -> CmpRow(e, SvOk, IsSemVer, SvC)
    [] e.k = "pepcmp"  -> CmpRow(e, PepOk, P!GreedyAccepts, PepC)
    [] e.k = "svsort"  -> /\ AllOk(e.sorted, SvOk) => ~e.panic
                          /\ (AllOk(e.sorted, IsSemVer) /\ ~e.panic) => Sorted(e, SvC)
    [] e.k = "pepsort" -> /\ AllOk(e.sorted, PepOk) => ~e.panic
                          /\ (AllOk(e.sorted, P!GreedyAccepts) /\ ~e.panic) => Sorted(e, PepC)
    [] e.k = "svmax"   -> (\A k \in 1..Len(e.tags) : Strict(e.tags[k], SvOk, IsSemVer)) => MaxRow(e, SvOk, SvC)
    [] e.k = "pepmax"  -> (\A k \in 1..Len(e.tags) : Strict(e.tags[k], PepOk, P!GreedyAccepts)) => MaxRow(e, PepOk, PepC)
    [] OTHER -> FALSE

Next == /\ l <= Len(Rec)
        /\ IF EventOk(Rec[l]) THEN TRUE ELSE PrintT("MISMATCH " \o ToString(l))
        /\ l' = l + 1
Spec == Init /\ [][Next]_l
AllConsumed == IF TLCGet("stats").diameter = Len(Rec) + 1 THEN TRUE
               ELSE PrintT("UNCONSUMED " \o ToString(TLCGet("stats").diameter)) /\ FALSE
=============================================================================
