--------------------------- MODULE MC_SemVerOrder ---------------------------
(* Order laws of SvCmp on a small universe, and generation of comparison rows.   *)
(* A state is a pair (i, j) of universe indices, chosen in two steps (first i,   *)
(* then j) so that TLC's workers share the pairs.  Universe: release-only versions over Nums^3 plus   *)
(* Cores x all identifier lists up to PreLen over Idents.                        *)
EXTENDS SemVerOrder, TLC, Json, SequencesExt

CONSTANTS Emit, PreLen, TransLen

D(str) == CASE str = "0" -> <<48>> [] str = "1" -> <<49>> [] str = "2" -> <<50>> [] str = "10" -> <<49,48>>
            [] str = "A" -> <<65>> [] str = "a" -> <<97>> [] str = "a0" -> <<97,48>> [] str = "x" -> <<120>>
            [] str = "B" -> <<66>> [] str = "-" -> <<45>>
Nums   == {D("0"), D("1"), D("2"), D("10")}
\* "B" sorts between "A" and "a" in ASCII but after "a" when case is folded; "-" sorts before the digits as text
\* but, being alphanumeric, above every numeric identifier
Idents == {D("0"), D("2"), D("10"), D("A"), D("a"), D("a0"), D("B"), D("-")}
Lists(n) == UNION { [1..k -> Idents] : k \in 0..n }
Mk(ma, mi, pa, pre) == [major |-> ma, minor |-> mi, patch |-> pa, pre |-> pre, build |-> <<>>]
ReleaseOnly == { Mk(a, b, c, <<>>) : a \in Nums, b \in Nums, c \in Nums }
WithPre(n)  == { Mk(D("1"), D("0"), c, p) : c \in {D("0"), D("1")}, p \in Lists(n) \ {<<>>} }
USet == ReleaseOnly \cup WithPre(PreLen)
U    == SetToSeq(USet)
TSet == ReleaseOnly \cup WithPre(TransLen)       \* third element for transitivity

VARIABLES i, j
Init == i = 0 /\ j = 0
Next == \/ i = 0 /\ i' \in 1..Len(U) /\ j' = 0
        \/ i # 0 /\ j = 0 /\ j' \in 1..Len(U) /\ i' = i
Pair == i # 0 /\ j # 0
Spec == Init /\ [][Next]_<<i, j>>

Cmp(x, y) == SvCmp(x, y)
Reflexive     == Pair => Cmp(U[i], U[i]) = 0
Antisymmetric == Pair => Cmp(U[i], U[j]) = -Cmp(U[j], U[i])
EqualIffSame  == Pair => ((Cmp(U[i], U[j]) = 0) <=> (U[i] = U[j]))      \* no build metadata in U
Transitive    == Pair => \A z \in TSet : (Cmp(U[i], U[j]) <= 0 /\ Cmp(U[j], z) <= 0) => Cmp(U[i], z) <= 0
\* the parser is in the loop: printing and re-parsing gives the same value
PrintParse    == Pair => Parse(Print(U[i])) = U[i] /\ IsSemVer(Print(U[i]))

\* rows for the implementation; every third row carries build metadata
WithBuild(v, k) == IF k % 3 = 0 THEN [v EXCEPT !.build = <<D("x"), D("1")>>] ELSE v
EmitLine ==
  (Emit /\ Pair) => PrintT("REPLAY " \o ToJson([ a |-> Print(WithBuild(U[i], i + j)), b |-> Print(WithBuild(U[j], i)),
                                       cmp |-> Cmp(U[i], U[j]) ]))
=============================================================================
