------------------------------- MODULE Template -------------------------------
(* Contracts of zerv's output-template context and functions (C15):                *)
(*  context : semver / pep440 equal the renderings; the *_obj parts recompose to    *)
(*            them; docker is the SemVer string with '+' replaced by '-'; scalar     *)
(*            variables equal the Zerv variables (short hashes = first 8 characters) *)
(*  functions: sanitize = the sanitiser contract; prefix / prefix_if; hash and       *)
(*            hash_int (opaque value, contract on shape); format_timestamp = the UTC *)
(*            calendar for the strftime subset %Y %y %m %d %H %M %S %j %-m %-d %%.   *)
EXTENDS Render

\* ---- sanitize(value, preset=... | separator=, lowercase=, keep_zeros=, max_length=) ----
PresetCfg(p) == IF p \in {"semver_str", "semver", "dotted", ""} THEN SemverSan ELSE LocalSan
\* acceptable outputs of the sanitize function
SanitizeOk(value, call, out) ==
  IF call.kind = "preset" THEN
       IF call.preset = "uint" THEN out = UIntContract(value)
       ELSE out = Full(PresetCfg(call.preset), value)
  ELSE LET cfg == [sep |-> call.sep, lower |-> call.lower, keep |-> call.keep, max |-> call.max] IN
       IF cfg.sep = 0 THEN (cfg.max >= 0 => Len(out) <= cfg.max)       \* no separator: length bound only
       ELSE Contract(cfg, value, out) /\ WellFormed(cfg, out)

\* Beyond the listed properties (C16 speaks about a non-alphanumeric separator only): without a separator
\* the text is kept as it is, lower-cased if asked, an all-digit text loses its leading zeros unless zeros are
\* kept, and the result is cut to max_length.  Stated for ASCII values; a deviation is reported, not a violation.
NoSepExpected(cfg, value) ==
  LET s1 == IF cfg.lower THEN LowerS(value) ELSE value
      s2 == IF ~cfg.keep /\ AllDigits(s1) THEN StripZ(s1) ELSE s1
      s3 == IF cfg.max >= 0 THEN Take(s2, cfg.max) ELSE s2
  IN IF cfg.max >= 0 /\ ~cfg.keep /\ AllDigits(s3) THEN StripZ(s3) ELSE s3
NoSepDeviates(value, call, out) ==
  /\ call.kind # "preset" /\ call.sep = 0 /\ AllAscii(value)
  /\ out # NoSepExpected([sep |-> 0, lower |-> call.lower, keep |-> call.keep, max |-> call.max], value)

\* ---- prefix / prefix_if ----
PrefixOk(value, n, out) == out = Take(value, n)
PrefixIfOk(value, p, out) == out = (IF value = <<>> THEN <<>> ELSE p \o value)

\* ---- hash / hash_int : opaque values with a shape contract ----
IsLowerHex(c) == IsDigit(c) \/ (c >= 97 /\ c <= 102)
HashOk(n, out) == Len(out) <= n /\ Len(out) > 0 /\ \A i \in 1..Len(out) : IsLowerHex(out[i])
HashIntOk(n, allowZero, out) ==
  /\ Len(out) <= n /\ Len(out) > 0 /\ AllDigits(out)
  /\ ~allowZero => (out[1] # ZERO \/ Len(out) = 1)

\* ---- format_timestamp ----
PCT == 37
Dec3(n) == PadTo(Dec(n), 3)
Directive(ch, dashed, c, sod) ==
  LET hh == sod \div 3600  mi == (sod % 3600) \div 60  ss == sod % 60 IN
  CASE ch = 89 -> PadTo(Dec(c.y), 4)                                   \* %Y
    [] ch = 121 -> Dec2(c.y % 100)                                     \* %y
    [] ch = 109 -> IF dashed THEN Dec(c.m) ELSE Dec2(c.m)              \* %m  %-m
    [] ch = 100 -> IF dashed THEN Dec(c.d) ELSE Dec2(c.d)              \* %d  %-d
    [] ch = 72 -> Dec2(hh)  [] ch = 77 -> Dec2(mi)  [] ch = 83 -> Dec2(ss)   \* %H %M %S
    [] ch = 106 -> Dec3(c.yd)                                          \* %j
    [] ch = PCT -> <<PCT>>
RECURSIVE FormatFrom(_, _, _, _)
FormatFrom(f, i, c, sod) ==
  IF i > Len(f) THEN <<>>
  ELSE IF f[i] = PCT /\ i + 2 <= Len(f) /\ f[i + 1] = DASH THEN Directive(f[i + 2], TRUE, c, sod) \o FormatFrom(f, i + 3, c, sod)
  ELSE IF f[i] = PCT /\ i + 1 <= Len(f) THEN Directive(f[i + 1], FALSE, c, sod) \o FormatFrom(f, i + 2, c, sod)
  ELSE <<f[i]>> \o FormatFrom(f, i + 1, c, sod)
FormatTimestamp(f, inst) ==
  IF f = <<99,111,109,112,97,99,116,95,100,97,116,101>> THEN Field("compact_date", inst.c, inst.sod)
  ELSE IF f = <<99,111,109,112,97,99,116,95,100,97,116,101,116,105,109,101>> THEN Field("compact_datetime", inst.c, inst.sod)
  ELSE FormatFrom(f, 1, inst.c, inst.sod)

\* ---- context ----
Replace(t, a, b) == [i \in 1..Len(t) |-> IF t[i] = a THEN b ELSE t[i]]
\* st is the (normalised) object the template sees; e carries the observed strings
ContextOk(sch, st, e) ==
  LET sv == RenderSemVer(sch, st)   pp == RenderPep440(sch, st) IN
  /\ e.semver = sv /\ e.pep440 = pp
  /\ e.sv_recomposed = sv /\ e.pep_recomposed = pp
  /\ e.docker = Replace(sv, PLUS, DASH)
=============================================================================
