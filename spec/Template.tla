------------------------------- MODULE Template -------------------------------
(* Contracts of zerv's output-template context and functions (C15):                *)
(*  context : semver / pep440 equal the renderings; the *_obj parts recompose to    *)
(*            them; docker is the SemVer string with '+' replaced by '-'; scalar     *)
(*            variables equal the Zerv variables (short hashes = first 8 characters) *)
(*  functions: sanitize = the sanitiser contract; prefix / prefix_if; hash and       *)
(*            hash_int (opaque value, contract on shape); format_timestamp = the UTC *)
(*            calendar for chrono's strftime directives (see format_timestamp below). *)
EXTENDS Render

\* ---- sanitize(value, preset=... | separator=, lowercase=, keep_zeros=, max_length=) ----
PresetCfg(p) == IF p \in {"semver_str", "semver", "dotted", ""} THEN SemverSan ELSE LocalSan
\* acceptable outputs of the sanitize function
SanitizeOk(value, call, out) ==
  IF call.kind = "preset" THEN
       IF call.preset = "uint" THEN out = UIntContract(value)
       ELSE out = Full(PresetCfg(call.preset), value)
  ELSE LET cfg == [sep |-> call.sep, lower |-> call.lower, keep |-> call.keep, max |-> call.max] IN
       IF cfg.sep = 0 THEN (cfg.max >= 0 => Len(out) <= cfg.max)       \* no separator: length bound only
       ELSE Contract(cfg, value, out) /\ WellFormed(cfg, out)

\* Beyond the listed properties (C16 speaks about a non-alphanumeric separator only): without a separator
\* the text is kept as it is, lower-cased if asked, an all-digit text loses its leading zeros unless zeros are
\* kept, and the result is cut to max_length.  Stated for ASCII values; a deviation is reported, not a violation.
NoSepExpected(cfg, value) ==
  LET s1 == IF cfg.lower THEN LowerS(value) ELSE value
      s2 == IF ~cfg.keep /\ AllDigits(s1) THEN StripZ(s1) ELSE s1
      s3 == IF cfg.max >= 0 THEN Take(s2, cfg.max) ELSE s2
  IN IF cfg.max >= 0 /\ ~cfg.keep /\ AllDigits(s3) THEN StripZ(s3) ELSE s3
NoSepDeviates(value, call, out) ==
  /\ call.kind # "preset" /\ call.sep = 0 /\ AllAscii(value)
  /\ out # NoSepExpected([sep |-> 0, lower |-> call.lower, keep |-> call.keep, max |-> call.max], value)

\* ---- prefix / prefix_if ----
PrefixOk(value, n, out) == out = Take(value, n)
PrefixIfOk(value, p, out) == out = (IF value = <<>> THEN <<>> ELSE p \o value)

\* ---- hash / hash_int : opaque values with a shape contract ----
IsLowerHex(c) == IsDigit(c) \/ (c >= 97 /\ c <= 102)
HashOk(n, out) == Len(out) <= n /\ Len(out) > 0 /\ \A i \in 1..Len(out) : IsLowerHex(out[i])
HashIntOk(n, allowZero, out) ==
  /\ Len(out) <= n /\ Len(out) > 0 /\ AllDigits(out)
  /\ ~allowZero => (out[1] # ZERO \/ Len(out) = 1)

\* ---- format_timestamp ----
(* strftime as chrono documents it, evaluated on the UTC civil fields: numeric directives with    *)
(* the padding modifiers - (none), _ (space), 0 (zero); English day / month names; 12-hour     *)
(* clock; week numbers %U (Sunday first) %W (Monday first) and the ISO 8601 week date %G %g %V; *)
(* the composites %D %F %T %R %r %c %v %x %X %+; the zone directives, which for UTC are the    *)
(* constants +0000 / +00:00 / +00:00:00 / +00 / UTC; %f (no sub-second part: nine zeros); %s   *)
(* (the instant itself, echoed from the event because it exceeds TLC's integers).              *)
PCT == 37
SPACE == 32
COLON == 58
DayNames == <<<<77,111,110,100,97,121>>, <<84,117,101,115,100,97,121>>, <<87,101,100,110,101,115,100,97,121>>, <<84,104,117,114,115,100,97,121>>, <<70,114,105,100,97,121>>, <<83,97,116,117,114,100,97,121>>, <<83,117,110,100,97,121>>>>
MonthNames == <<<<74,97,110,117,97,114,121>>, <<70,101,98,114,117,97,114,121>>, <<77,97,114,99,104>>, <<65,112,114,105,108>>, <<77,97,121>>, <<74,117,110,101>>, <<74,117,108,121>>, <<65,117,103,117,115,116>>, <<83,101,112,116,101,109,98,101,114>>, <<79,99,116,111,98,101,114>>, <<78,111,118,101,109,98,101,114>>, <<68,101,99,101,109,98,101,114>>>>
FmtD == <<37,109,47,37,100,47,37,121>>                         \* %m/%d/%y
FmtF == <<37,89,45,37,109,45,37,100>>                          \* %Y-%m-%d
FmtT == <<37,72,58,37,77,58,37,83>>                            \* %H:%M:%S
FmtR == <<37,72,58,37,77>>                                     \* %H:%M
Fmtr == <<37,73,58,37,77,58,37,83,32,37,112>>                  \* %I:%M:%S %p
Fmtc == <<37,97,32,37,98,32,37,101,32,37,72,58,37,77,58,37,83,32,37,89>>   \* %a %b %e %H:%M:%S %Y
Fmtv == <<37,101,45,37,98,45,37,89>>                           \* %e-%b-%Y
FmtPlus == <<37,89,45,37,109,45,37,100,84,37,72,58,37,77,58,37,83,37,58,122>>   \* %Y-%m-%dT%H:%M:%S%:z
TxtUTC == <<85,84,67>>
TxtZ4 == <<43,48,48,48,48>>
TxtZ5 == <<43,48,48,58,48,48>>
TxtZ8 == <<43,48,48,58,48,48,58,48,48>>
TxtZ2 == <<43,48,48>>
Nanos9 == <<48,48,48,48,48,48,48,48,48>>
RECURSIVE SpPad(_, _)
SpPad(t, w) == IF Len(t) >= w THEN t ELSE SpPad(<<SPACE>> \o t, w)
Dec3(n) == PadTo(Dec(n), 3)
\* a numeric field: value, default width, default padding character, modifier (0 = none, or - _ 0)
NumField(n, w, defpad, mod) ==
  IF mod = DASH THEN Dec(n)
  ELSE IF mod = USCORE \/ (mod = 0 /\ defpad = SPACE) THEN SpPad(Dec(n), w)
  ELSE PadTo(Dec(n), w)
\* week numbers; c.wd counts from Monday = 0
WeekSun(c) == (c.yd + 6 - ((c.wd + 1) % 7)) \div 7
Jan1Wd(c) == (c.wd + 371 - (c.yd - 1)) % 7
WeeksIn(y, jan1) == IF jan1 = 3 \/ (Leap(y) /\ jan1 = 2) THEN 53 ELSE 52
IsoWeekDate(c) ==
  LET wk == (c.yd - (c.wd + 1) + 10) \div 7
      j1 == Jan1Wd(c)
      j1prev == (j1 + 371 - (IF Leap(c.y - 1) THEN 366 ELSE 365)) % 7 IN
  IF wk = 0 THEN [y |-> c.y - 1, w |-> WeeksIn(c.y - 1, j1prev)]
  ELSE IF wk = 53 /\ WeeksIn(c.y, j1) = 52 THEN [y |-> c.y + 1, w |-> 1]
  ELSE [y |-> c.y, w |-> wk]
\* a format is read left to right: % [-_0] [:]* letter
RECURSIVE FormatFrom(_, _, _, _, _)
Directive(ch, mod, colons, c, sod, ts) ==
  LET hh == sod \div 3600  mi == (sod % 3600) \div 60  ss == sod % 60
      h12 == IF hh % 12 = 0 THEN 12 ELSE hh % 12 IN
  CASE ch = 89 -> PadTo(Dec(c.y), 4)                                   \* %Y
    [] ch = 67 -> NumField(c.y \div 100, 2, ZERO, mod)                 \* %C
    [] ch = 121 -> NumField(c.y % 100, 2, ZERO, mod)                   \* %y
    [] ch = 109 -> NumField(c.m, 2, ZERO, mod)                         \* %m
    [] ch = 100 -> NumField(c.d, 2, ZERO, mod)                         \* %d
    [] ch = 101 -> NumField(c.d, 2, SPACE, mod)                        \* %e
    [] ch = 72 -> NumField(hh, 2, ZERO, mod)                           \* %H
    [] ch = 107 -> NumField(hh, 2, SPACE, mod)                         \* %k
    [] ch = 73 -> NumField(h12, 2, ZERO, mod)                          \* %I
    [] ch = 108 -> NumField(h12, 2, SPACE, mod)                        \* %l
    [] ch = 77 -> NumField(mi, 2, ZERO, mod)                           \* %M
    [] ch = 83 -> NumField(ss, 2, ZERO, mod)                           \* %S
    [] ch = 106 -> NumField(c.yd, 3, ZERO, mod)                        \* %j
    [] ch = 85 -> NumField(WeekSun(c), 2, ZERO, mod)                   \* %U
    [] ch = 87 -> NumField(WeekMon(c), 2, ZERO, mod)                   \* %W
    [] ch = 86 -> NumField(IsoWeekDate(c).w, 2, ZERO, mod)             \* %V
    [] ch = 71 -> PadTo(Dec(IsoWeekDate(c).y), 4)                      \* %G
    [] ch = 103 -> NumField(IsoWeekDate(c).y % 100, 2, ZERO, mod)      \* %g
    [] ch = 117 -> Dec(c.wd + 1)                                       \* %u  Monday = 1
    [] ch = 119 -> Dec((c.wd + 1) % 7)                                 \* %w  Sunday = 0
    [] ch = 97 -> Take(DayNames[c.wd + 1], 3)                          \* %a
    [] ch = 65 -> DayNames[c.wd + 1]                                   \* %A
    [] ch \in {98, 104} -> Take(MonthNames[c.m], 3)                    \* %b %h
    [] ch = 66 -> MonthNames[c.m]                                      \* %B
    [] ch = 112 -> IF hh < 12 THEN <<65, 77>> ELSE <<80, 77>>          \* %p
    [] ch = 80 -> IF hh < 12 THEN <<97, 109>> ELSE <<112, 109>>        \* %P
    [] ch = 68 -> FormatFrom(FmtD, 1, c, sod, ts)
    [] ch = 120 -> FormatFrom(FmtD, 1, c, sod, ts)                     \* %x
    [] ch = 70 -> FormatFrom(FmtF, 1, c, sod, ts)
    [] ch = 84 -> FormatFrom(FmtT, 1, c, sod, ts)
    [] ch = 88 -> FormatFrom(FmtT, 1, c, sod, ts)                      \* %X
    [] ch = 82 -> FormatFrom(FmtR, 1, c, sod, ts)
    [] ch = 114 -> FormatFrom(Fmtr, 1, c, sod, ts)
    [] ch = 99 -> FormatFrom(Fmtc, 1, c, sod, ts)
    [] ch = 118 -> FormatFrom(Fmtv, 1, c, sod, ts)
    [] ch = 43 -> FormatFrom(FmtPlus, 1, c, sod, ts)                   \* %+
    [] ch = 122 -> (CASE colons = 0 -> TxtZ4 [] colons = 1 -> TxtZ5 [] colons = 2 -> TxtZ8 [] OTHER -> TxtZ2)   \* %z %:z %::z %:::z
    [] ch = 90 -> TxtUTC                                               \* %Z
    [] ch = 102 -> Nanos9                                              \* %f
    [] ch = 115 -> ts                                                  \* %s
    [] ch = PCT -> <<PCT>>
RECURSIVE CountColons(_, _)
CountColons(f, i) == IF i <= Len(f) /\ f[i] = COLON THEN 1 + CountColons(f, i + 1) ELSE 0
FormatFrom(f, i, c, sod, ts) ==
  IF i > Len(f) THEN <<>>
  ELSE IF f[i] = PCT /\ i + 1 <= Len(f) THEN
       LET hasMod == f[i + 1] \in {DASH, USCORE, ZERO} /\ i + 2 <= Len(f)
           mod == IF hasMod THEN f[i + 1] ELSE 0
           j == IF hasMod THEN i + 2 ELSE i + 1
           colons == CountColons(f, j)
           k == j + colons IN
       IF k <= Len(f) THEN Directive(f[k], mod, colons, c, sod, ts) \o FormatFrom(f, k + 1, c, sod, ts)
       ELSE <<>>
  ELSE <<f[i]>> \o FormatFrom(f, i + 1, c, sod, ts)
FormatTimestampTs(f, inst, ts) ==
  IF f = <<99,111,109,112,97,99,116,95,100,97,116,101>> THEN Field("compact_date", inst.c, inst.sod)
  ELSE IF f = <<99,111,109,112,97,99,116,95,100,97,116,101,116,105,109,101>> THEN Field("compact_datetime", inst.c, inst.sod)
  ELSE FormatFrom(f, 1, inst.c, inst.sod, ts)
FormatTimestamp(f, inst) == FormatTimestampTs(f, inst, <<>>)

\* ---- context ----
Replace(t, a, b) == [i \in 1..Len(t) |-> IF t[i] = a THEN b ELSE t[i]]
\* st is the (normalised) object the template sees; e carries the observed strings
ContextOk(sch, st, e) ==
  LET sv == RenderSemVer(sch, st)   pp == RenderPep440(sch, st) IN
  /\ e.semver = sv /\ e.pep440 = pp
  /\ e.sv_recomposed = sv /\ e.pep_recomposed = pp
  /\ e.docker = Replace(sv, PLUS, DASH)
=============================================================================
