---------------------------- MODULE Trace_SemVer ----------------------------
(* Validates recorded SemVer::from_str / to_string / `check` observations on     *)
(* long and structured strings against the SemVer grammar.                      *)
EXTENDS SemVerGrammar, TLC, Json, IOUtils

Rec == ndJsonDeserialize(IOEnv.TRACE)
VARIABLE l
Init == l = 1

\* A core number beyond u64 cannot be represented; rejecting it is what C07 asks
\* for, printing it back exactly is what C08 asks for: both are accepted.
EventOk(e) ==
  LET s == e.s IN
  /\ ~e.panic
  /\ e.check = e.ok
  /\ IF ~IsSemVer(s) THEN ~e.ok
     ELSE IF ~CoreFits(s) THEN (e.ok => e.printed = StripV(s))
     ELSE e.ok /\ e.printed = StripV(s)

Next == /\ l <= Len(Rec)
        /\ IF EventOk(Rec[l]) THEN TRUE ELSE PrintT("MISMATCH " \o ToString(l))
        /\ l' = l + 1
Spec == Init /\ [][Next]_l
AllConsumed == IF TLCGet("stats").diameter = Len(Rec) + 1 THEN TRUE
               ELSE PrintT("UNCONSUMED " \o ToString(TLCGet("stats").diameter)) /\ FALSE
=============================================================================
