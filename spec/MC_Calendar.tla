----------------------------- MODULE MC_Calendar -----------------------------
(* Walks the calendar day by day to LastDay and prints, for selected days, the   *)
(* sixteen pattern values at second 0, second 86399 and one derived second.      *)
EXTENDS Calendar, TLC, Json
CONSTANTS LastDay, Emit, Stride
VARIABLE c
Init == c = Day0
Next == c.day < LastDay /\ c' = NextDayOf(c)
Spec == Init /\ [][Next]_c

\* sanity of the automaton itself
WellFormed == /\ c.m \in 1..12 /\ c.d \in 1..MonthLen(c.y, c.m) /\ c.wd \in 0..6
              /\ c.yd \in 1..(IF Leap(c.y) THEN 366 ELSE 365)
              /\ (c.m = 1 /\ c.d = 1) <=> c.yd = 1
              /\ c.wd = (c.day + 3) % 7
\* the closed form agrees with the automaton on every day walked
ClosedForm == ValidCivil(c)
\* known anchor dates (checked when reached)
Anchors == /\ c.day = 10957 => (c.y = 2000 /\ c.m = 1 /\ c.d = 1 /\ c.wd = 5)      \* Saturday
           /\ c.day = 11016 => (c.y = 2000 /\ c.m = 2 /\ c.d = 29)
           /\ c.day = 19782 => (c.y = 2024 /\ c.m = 2 /\ c.d = 29 /\ c.wd = 3)     \* Thursday
           /\ c.day = 47540 => (c.y = 2100 /\ c.m = 2 /\ c.d = 28)
           /\ c.day = 47541 => (c.y = 2100 /\ c.m = 3 /\ c.d = 1)                  \* 2100 is not leap
           /\ c.day = 84005 => (c.y = 2199 /\ c.m = 12 /\ c.d = 31)

Selected == \/ c.day % Stride = 0
            \/ c.d = 1 \/ c.d = MonthLen(c.y, c.m)                   \* month and year boundaries
            \/ (c.m = 1 /\ c.d <= 8) \/ (c.m = 12 /\ c.d >= 24)      \* week-number edge
            \/ (c.m = 2 /\ c.d >= 27) \/ (c.m = 3 /\ c.d = 2)
Pseudo == (c.day * 7919 + 12345) % 86400
EmitLine ==
  (Emit /\ Selected) =>
     PrintT("REPLAY " \o ToJson([ day |-> c.day, y |-> c.y, m |-> c.m, d |-> c.d,
        inst |-> << [sod |-> 0, f |-> AllFields(c, 0)],
                    [sod |-> 86399, f |-> AllFields(c, 86399)],
                    [sod |-> Pseudo, f |-> AllFields(c, Pseudo)] >> ]))
EmitPatterns == PrintT("PATTERNS " \o ToJson(Patterns))
ASSUME EmitPatterns
=============================================================================
