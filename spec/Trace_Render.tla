----------------------------- MODULE Trace_Render -----------------------------
(* Validates recorded SemVer::from(Zerv) / PEP440::from(Zerv) renderings of       *)
(* random valid schemas (up to 4 components per section, Unicode text, numbers     *)
(* up to 2^31-1) against Render.tla, and the C01 well-formedness of every          *)
(* recorded output against the grammar modules.                                    *)
EXTENDS Render, TLC, Json, IOUtils
SV == INSTANCE SemVerGrammar
PG == INSTANCE Pep440Grammar
Rec == ndJsonDeserialize(IOEnv.TRACE)
VARIABLE l
Init == l = 1
EventOk(e) ==
  /\ ~e.panic
  /\ ValidSchema(e.sch)                       \* the object was accepted by zerv: the rules must agree
  /\ e.semver = RenderSemVer(e.sch, e.st)
  /\ e.pep440 = RenderPep440(e.sch, e.st)
  /\ SV!IsSemVer(e.semver) /\ AllAscii(e.semver)
  /\ PG!GreedyAccepts(e.pep440) /\ PG!NormalOf(e.pep440) = e.pep440
Next == /\ l <= Len(Rec)
        /\ IF ~InstantsOk(Rec[l].st) THEN PrintT("MISMATCH " \o ToString(l) \o " recorder-civil-fields")
           ELSE IF EventOk(Rec[l]) THEN TRUE ELSE PrintT("MISMATCH " \o ToString(l))
        /\ l' = l + 1
Spec == Init /\ [][Next]_l
AllConsumed == IF TLCGet("stats").diameter = Len(Rec) + 1 THEN TRUE
               ELSE PrintT("UNCONSUMED " \o ToString(TLCGet("stats").diameter)) /\ FALSE
=============================================================================
