----------------------------- MODULE MC_PepOrder -----------------------------
(* Order laws of PepCmp on a small universe of field values, spelling            *)
(* independence (every spelling of a value parses, with Pep440Grammar, to a      *)
(* key-equal value), the chain pre-releases < dev < final < post for one         *)
(* release, and generation of comparison rows in varied spellings.               *)
EXTENDS Pep440Order, TLC, Json, SequencesExt

CONSTANTS Emit, Big

T(str) == CASE str = "0" -> <<48>> [] str = "1" -> <<49>> [] str = "2" -> <<50>> [] str = "10" -> <<49,48>>
            [] str = "a" -> <<97>> [] str = "b" -> <<98>> [] str = "rc" -> <<114,99>>
            [] str = "1.a" -> <<49,46,97>> [] str = "a.1" -> <<97,46,49>> [] str = "A" -> <<65>>
Epochs == {<<>>, T("1")}
Rels == IF Big THEN { <<T("1")>>, <<T("1"), T("0")>>, <<T("1"), T("0"), T("0")>>, <<T("1"), T("1")>>,
                      <<T("1"), T("0"), T("1")>>, <<T("2")>>, <<T("1"), T("0"), T("0"), T("1")>>, <<T("10")>> }
        ELSE { <<T("1")>>, <<T("1"), T("0"), T("0")>>, <<T("1"), T("0"), T("1")>>, <<T("1"), T("0"), T("0"), T("1")>> }
Pres  == IF Big THEN { Absent, <<T("a"), T("0")>>, <<T("a"), T("1")>>, <<T("b"), T("0")>>, <<T("rc"), T("1")>>, <<T("rc"), T("2")>> }
         ELSE { Absent, <<T("a"), T("1")>>, <<T("b"), T("0")>>, <<T("rc"), T("2")>> }
Posts == IF Big THEN { Absent, <<T("0")>>, <<T("1")>> } ELSE { Absent, <<T("1")>> }
Devs  == IF Big THEN { Absent, <<T("0")>>, <<T("2")>> } ELSE { Absent, <<T("2")>> }
Locs  == IF Big THEN { <<>>, T("1"), T("a"), T("1.a"), T("a.1"), T("10") } ELSE { <<>>, T("1"), T("a"), T("a.1") }
USet == { [ep |-> e, rel |-> r, pre |-> p, post |-> po, dev |-> d, loc |-> l, hasLoc |-> l # <<>>] :
            e \in Epochs, r \in Rels, p \in Pres, po \in Posts, d \in Devs, l \in Locs }
U == SetToSeq(USet)
\* third elements for transitivity: everything without local/epoch variation
TSet == { v \in USet : v.ep = <<>> /\ ~v.hasLoc }

VARIABLES i, j
Init == i = 0 /\ j = 0
Next == \/ i = 0 /\ i' \in 1..Len(U) /\ j' = 0
        \/ i # 0 /\ j = 0 /\ j' \in 1..Len(U) /\ i' = i
Spec == Init /\ [][Next]_<<i, j>>
Pair == i # 0 /\ j # 0

Cmp(x, y) == PepCmp(x, y)
\* two universe values denote the same version iff they differ only in trailing
\* zero release numbers
RECURSIVE DropZeros(_)
DropZeros(r) == IF Len(r) > 1 /\ r[Len(r)] = T("0") THEN DropZeros(SubSeq(r, 1, Len(r) - 1)) ELSE r
Same(x, y) == [x EXCEPT !.rel = DropZeros(x.rel)] = [y EXCEPT !.rel = DropZeros(y.rel)]
Reflexive     == Pair => Cmp(U[i], U[i]) = 0
Antisymmetric == Pair => Cmp(U[i], U[j]) = -Cmp(U[j], U[i])
EqualIffSame  == Pair => ((Cmp(U[i], U[j]) = 0) <=> Same(U[i], U[j]))
Transitive    == Pair => \A z \in TSet : (Cmp(U[i], U[j]) <= 0 /\ Cmp(U[j], z) <= 0) => Cmp(U[i], z) <= 0
\* for one release: pre-releases < dev release < final < post releases
Chain == Pair => LET x == U[i]  y == U[j] IN
  (x.ep = y.ep /\ Same([x EXCEPT !.pre = Absent, !.post = Absent, !.dev = Absent, !.loc = <<>>, !.hasLoc = FALSE],
                       [y EXCEPT !.pre = Absent, !.post = Absent, !.dev = Absent, !.loc = <<>>, !.hasLoc = FALSE])) =>
     /\ (x.pre # Absent /\ y.pre = Absent) => Cmp(x, y) < 0
     /\ (x.pre = Absent /\ y.pre = Absent /\ x.post = Absent /\ y.post = Absent /\ x.dev # Absent /\ y.dev = Absent) => Cmp(x, y) < 0
     /\ (x.pre = Absent /\ y.pre = Absent /\ x.post = Absent /\ x.dev = Absent /\ y.post # Absent) => Cmp(x, y) < 0

\* ---- spellings -------------------------------------------------------------
Up(t) == [k \in 1..Len(t) |-> IF IsLower(t[k]) THEN t[k] - 32 ELSE t[k]]
Z0(n) == <<ZERO>> \o n                      \* a leading zero
RelText(r) == Join(r, <<DOT>>)
LabelAlt(l, k) == IF l = T("a") THEN (IF k = 1 THEN W("alpha") ELSE Up(W("a")))
                  ELSE IF l = T("b") THEN (IF k = 1 THEN Up(W("beta")) ELSE W("b"))
                  ELSE (IF k = 1 THEN W("c") ELSE IF k = 2 THEN W("preview") ELSE Up(W("pre")))
\* spelling 0 is the normal form; 1 and 2 vary case, separators, labels, zeros,
\* the v prefix, trailing zero release numbers, explicit epoch 0, implicit numbers
Spell(v, k) ==
  IF k = 0 THEN Normal(v)
  ELSE
    (IF k = 1 THEN <<118>> ELSE <<>>)
    \o (IF v.ep = <<>> THEN (IF k = 2 THEN <<ZERO, BANG>> ELSE <<>>) ELSE Z0(v.ep) \o <<BANG>>)
    \o RelText(v.rel) \o (IF k = 1 THEN <<DOT, ZERO>> ELSE <<>>)
    \o (IF v.pre = Absent THEN <<>>
        ELSE (IF k = 1 THEN <<DASH>> ELSE <<USCORE>>) \o LabelAlt(v.pre[1], k)
             \o (IF v.pre[2] = T("0") /\ k = 2 THEN <<>> ELSE (IF k = 1 THEN <<DOT>> ELSE <<>>) \o Z0(v.pre[2])))
    \o (IF v.post = Absent THEN <<>>
        ELSE IF k = 1 /\ v.pre = Absent THEN <<DASH>> \o v.post[1]           \* the bare -N form
        ELSE (IF k = 1 THEN <<USCORE>> \o Up(W("rev")) ELSE W("r"))
             \o (IF v.post[1] = T("0") /\ k = 2 THEN <<>> ELSE (IF k = 1 THEN <<DASH>> ELSE <<>>) \o Z0(v.post[1])))
    \o (IF v.dev = Absent THEN <<>>
        ELSE (IF k = 1 THEN <<DASH>> \o Up(W("dev")) ELSE W("dev"))
             \o (IF v.dev[1] = T("0") /\ k = 2 THEN <<>> ELSE (IF k = 1 THEN <<USCORE>> ELSE <<>>) \o Z0(v.dev[1])))
    \o (IF ~v.hasLoc THEN <<>>
        ELSE <<PLUS>> \o (IF k = 1 THEN Up([n \in 1..Len(v.loc) |-> IF v.loc[n] = DOT THEN DASH ELSE v.loc[n]])
                          ELSE [n \in 1..Len(v.loc) |-> IF v.loc[n] = DOT THEN USCORE ELSE v.loc[n]]))
CoreOf(st) == [ep |-> st.ep, rel |-> st.rel, pre |-> st.pre, post |-> st.post, dev |-> st.dev, loc |-> st.loc, hasLoc |-> st.hasLoc]
SpellingIndependent ==
  Pair => \A k \in 0..2 : /\ GreedyAccepts(Spell(U[i], k))
                          /\ Cmp(CoreOf(Greedy(Spell(U[i], k))), U[i]) = 0

EmitLine ==
  (Emit /\ Pair) => PrintT("REPLAY " \o ToJson([ a |-> Spell(U[i], (i + j) % 3), b |-> Spell(U[j], (i + 2 * j) % 3),
                                                 cmp |-> Cmp(U[i], U[j]) ]))
=============================================================================
