-------------------------------- MODULE ZervOps --------------------------------
(* The operators of the version machine (src/version/zerv/bump): resets, the       *)
(* override / bump / reset-lower step of every level, index-addressed operations   *)
(* and argument conflicts.  Pure definitions: ZervModel adds the state machine,    *)
(* Flow composes two passes.  Numbers are TLC integers, NONE = -1 is "unset".      *)
EXTENDS Schema, TLC

NONE == -1
DefaultOrder == <<"Epoch", "Major", "Minor", "Patch", "Core", "PreReleaseLabel", "PreReleaseNum",
                  "Post", "Dev", "ExtraCore", "Build">>
NoPre == [l |-> "none", n |-> NONE]
Labels == {"alpha", "beta", "rc"}

LevelIndex(order, lv) == CHOOSE i \in 1..Len(order) : order[i] = lv
InOrder(order, lv) == \E i \in 1..Len(order) : order[i] = lv
AllLevels == {"Epoch", "Major", "Minor", "Patch", "Core", "PreReleaseLabel", "PreReleaseNum", "Post", "Dev", "ExtraCore", "Build"}
IsPermutation(order) == Len(order) = 11 /\ { order[i] : i \in 1..Len(order) } = AllLevels

\* ------------------------------------------------------------------- resets --
ResetOne(v, lv) ==
  CASE lv = "Epoch" -> [v EXCEPT !.epoch = 0]
    [] lv = "Major" -> [v EXCEPT !.major = 0]
    [] lv = "Minor" -> [v EXCEPT !.minor = 0]
    [] lv = "Patch" -> [v EXCEPT !.patch = 0]
    [] lv = "PreReleaseLabel" -> [v EXCEPT !.pre = NoPre]
    [] lv = "PreReleaseNum" -> IF v.pre.l # "none" THEN [v EXCEPT !.pre.n = 0] ELSE v
    [] lv = "Post" -> [v EXCEPT !.post = NONE]
    [] lv = "Dev" -> [v EXCEPT !.dev = NONE]
    [] OTHER -> v                      \* section levels: literal components are never reset
RECURSIVE ResetFrom(_, _, _)
ResetFrom(v, order, i) == IF i > Len(order) THEN v ELSE ResetFrom(ResetOne(v, order[i]), order, i + 1)
\* reset every level strictly lower than lv
ResetLower(v, order, lv) == ResetFrom(v, order, LevelIndex(order, lv) + 1)

\* --------------------------------------------------------------- level steps --
Or0(x) == IF x = NONE THEN 0 ELSE x
FieldOf(lv) == CASE lv = "Epoch" -> "epoch" [] lv = "Major" -> "major" [] lv = "Minor" -> "minor"
                 [] lv = "Patch" -> "patch" [] lv = "Post" -> "post" [] lv = "Dev" -> "dev"
\* a numeric level: override sets absolutely, bump adds and resets every lower level
ProcNum(v, order, lv, ov, bp) ==
  LET f  == FieldOf(lv)
      v1 == IF ov # NONE THEN [v EXCEPT ![f] = ov] ELSE v
  IN  IF bp # NONE THEN ResetLower([v1 EXCEPT ![f] = Or0(v1[f]) + bp], order, lv) ELSE v1
\* pre-release number: creates an alpha pre-release when there is none
ProcPreNum(v, order, ov, bp) ==
  LET v1 == IF ov = NONE THEN v
            ELSE IF v.pre.l = "none" THEN [v EXCEPT !.pre = [l |-> "alpha", n |-> ov]]
            ELSE [v EXCEPT !.pre.n = ov]
  IN  IF bp = NONE THEN v1
      ELSE IF v1.pre.l # "none" THEN ResetLower([v1 EXCEPT !.pre.n = Or0(v1.pre.n) + bp], order, "PreReleaseNum")
      ELSE ResetLower([v1 EXCEPT !.pre = [l |-> "alpha", n |-> bp]], order, "PreReleaseNum")
\* pre-release label: override keeps (or creates) the number, bump resets and sets number 0
ProcLabel(v, order, ovLabel, ovNum, bpLabel) ==
  LET v1 == IF ovLabel = "" THEN v
            ELSE [v EXCEPT !.pre = [l |-> ovLabel,
                                    n |-> IF ovNum # NONE THEN ovNum
                                          ELSE IF v.pre.l # "none" /\ v.pre.n # NONE THEN v.pre.n ELSE 0]]
  IN  IF bpLabel = "" THEN v1
      ELSE [ResetLower(v1, order, "PreReleaseLabel") EXCEPT !.pre = [l |-> bpLabel, n |-> 0]]

\* a numeric flag value may be a template reference to a variable of the pre-bump snapshot:
\*  -10 {{ major }}  -11 {{ minor }}  -12 {{ patch }}  -13 {{ distance }}  -14 {{ post }}
\* (an unset variable renders as nothing: the flag then has no value at all)
ResolveRef(x, v, ctx) ==
  CASE x = -10 -> v.major [] x = -11 -> v.minor [] x = -12 -> v.patch [] x = -13 -> ctx.distance [] x = -14 -> v.post
    [] OTHER -> x
ResolveAll(r, v, ctx) == [f \in DOMAIN r |-> IF f = "label" THEN r[f] ELSE ResolveRef(r[f], v, ctx)]

ProcByName(v, order, lv, a) ==
  CASE lv \in {"Epoch", "Major", "Minor", "Patch", "Post", "Dev"} ->
         ProcNum(v, order, lv, a.ov[FieldOf(lv)], a.bp[FieldOf(lv)])
    [] lv = "PreReleaseLabel" -> ProcLabel(v, order, a.ov.label, a.ov.prenum, a.bp.label)
    [] lv = "PreReleaseNum"   -> ProcPreNum(v, order, a.ov.prenum, a.bp.prenum)

\* ------------------------------------------------ index-addressed operations --
\* op = [sec, kind ("ov" | "bump"), idx (may be negative), hasval, val]
\* val = [t ("num" | "text" | "neg"), n, s]   (s = the text as written)
SecOf(lv) == CASE lv = "Core" -> "core" [] lv = "ExtraCore" -> "extra" [] lv = "Build" -> "build"
One == [t |-> "num", n |-> 1, s |-> <<49>>]
NoVal == [t |-> "none", n |-> 0, s |-> <<>>]
NormIdx(idx, len) == IF idx >= 0 THEN (IF idx < len THEN idx ELSE NONE)
                     ELSE (IF len + idx >= 0 THEN len + idx ELSE NONE)
OpsOf(a, sec, kind) == SelectSeq(a.ops, LAMBDA o : o.sec = sec /\ o.kind = kind)
\* parse-and-validate of one section: "error" or the specs sorted by index
SpecsOrError(a, sec, len) ==
  LET ovs == OpsOf(a, sec, "ov")   bps == OpsOf(a, sec, "bump")
      bad(o) == \/ NormIdx(o.idx, len) = NONE
                \/ (o.kind = "ov" /\ ~o.hasval)
                \/ (o.hasval /\ o.val.t = "neg")
      dup(os) == \E i, j \in 1..Len(os) : i < j /\ NormIdx(os[i].idx, len) = NormIdx(os[j].idx, len)
  IN  IF (\E i \in 1..Len(ovs) : bad(ovs[i])) \/ (\E i \in 1..Len(bps) : bad(bps[i])) \/ dup(ovs) \/ dup(bps)
      THEN [err |-> TRUE, specs |-> <<>>]
      ELSE LET idxs == { NormIdx(ovs[i].idx, len) : i \in 1..Len(ovs) } \cup { NormIdx(bps[i].idx, len) : i \in 1..Len(bps) }
               ovAt(x) == IF \E i \in 1..Len(ovs) : NormIdx(ovs[i].idx, len) = x
                          THEN ovs[CHOOSE i \in 1..Len(ovs) : NormIdx(ovs[i].idx, len) = x].val ELSE NoVal
               bpAt(x) == IF \E i \in 1..Len(bps) : NormIdx(bps[i].idx, len) = x
                          THEN LET o == bps[CHOOSE i \in 1..Len(bps) : NormIdx(bps[i].idx, len) = x]
                               IN IF o.hasval THEN o.val ELSE One
                          ELSE NoVal
               RECURSIVE Sorted(_)
               Sorted(S) == IF S = {} THEN <<>>
                            ELSE LET m == CHOOSE x \in S : \A y \in S : x <= y
                                 IN <<[i |-> m, ov |-> ovAt(m), bp |-> bpAt(m)]>> \o Sorted(S \ {m})
           IN [err |-> FALSE, specs |-> Sorted(idxs)]

NumOf(val) == IF val.t = "none" THEN NONE ELSE val.n
NumericOk(val) == val.t \in {"none", "num"}
VarLevel(name) == CASE name = "Major" -> "Major" [] name = "Minor" -> "Minor" [] name = "Patch" -> "Patch"
                    [] name = "Epoch" -> "Epoch" [] name = "Post" -> "Post" [] name = "Dev" -> "Dev"
\* apply one spec to the component at 0-based index spec.i of section sec;
\* result [err, v, sch]
ApplySpec(v, sch, order, sec, spec) ==
  LET c == sch[sec][spec.i + 1] IN
  IF c.t \in {"ts", "custom"} \/ (c.t = "var" /\ c.v \in ContextVars)
  THEN [err |-> TRUE, v |-> v, sch |-> sch]
  ELSE IF c.t = "var"
  THEN IF ~NumericOk(spec.ov) \/ ~NumericOk(spec.bp) THEN [err |-> TRUE, v |-> v, sch |-> sch]
       \* a bump resets the levels below its own: the level must be part of the precedence order
       ELSE IF spec.bp.t # "none" /\ ~InOrder(order, IF c.v = "PreRelease" THEN "PreReleaseNum" ELSE VarLevel(c.v))
            THEN [err |-> TRUE, v |-> v, sch |-> sch]
       ELSE [err |-> FALSE, sch |-> sch,
             v |-> IF c.v = "PreRelease" THEN ProcPreNum(v, order, NumOf(spec.ov), NumOf(spec.bp))
                   ELSE ProcNum(v, order, VarLevel(c.v), NumOf(spec.ov), NumOf(spec.bp))]
  ELSE IF c.t = "uint"
  THEN IF ~NumericOk(spec.ov) \/ ~NumericOk(spec.bp) THEN [err |-> TRUE, v |-> v, sch |-> sch]
       ELSE [err |-> FALSE, v |-> v,
             sch |-> [sch EXCEPT ![sec][spec.i + 1].n =
                        (IF spec.ov.t = "num" THEN spec.ov.n ELSE c.n) + (IF spec.bp.t = "num" THEN spec.bp.n ELSE 0)]]
  ELSE \* a str literal: override replaces, "bump" replaces as well
       [err |-> FALSE, v |-> v,
        sch |-> [sch EXCEPT ![sec][spec.i + 1].s =
                   IF spec.bp.t # "none" THEN spec.bp.s ELSE IF spec.ov.t # "none" THEN spec.ov.s ELSE c.s]]

\* ------------------------------------------------------- argument validation --
\* conflicts detected before anything is computed (src/cli/version/args/validation.rs)
ArgsConflict(a) ==
  \/ a.vcs.dirty /\ a.vcs.nodirty
  \/ a.vcs.clean /\ (a.vcs.distance # NONE \/ a.vcs.dirty \/ a.vcs.nodirty)
  \/ a.vcs.bc /\ a.vcs.nbc
  \/ a.vcs.nbc /\ a.vcs.dirty
  \/ a.ov.label # "" /\ a.bp.label # ""
=============================================================================
