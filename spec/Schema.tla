-------------------------------- MODULE Schema --------------------------------
(* Zerv schemas: three sections of components, the placement rules (ValidSchema, *)
(* written from the documentation, not from validation.rs), the 22 presets and   *)
(* the smart tier choice.  A component is a uniform record                       *)
(*   [t, v, s, n] : t = "var" (v = variable name), "ts" (v = pattern),            *)
(*   "custom" (s = key text), "str" (s = literal text), "uint" (n = literal).     *)
EXTENDS Integers, Sequences, FiniteSets

CVar(name)   == [t |-> "var",    v |-> name, s |-> <<>>, n |-> 0]
CTs(pat)     == [t |-> "ts",     v |-> pat,  s |-> <<>>, n |-> 0]
CCustom(key) == [t |-> "custom", v |-> "",   s |-> key,  n |-> 0]
CStr(text)   == [t |-> "str",    v |-> "",   s |-> text, n |-> 0]
CUInt(k)     == [t |-> "uint",   v |-> "",   s |-> <<>>, n |-> k]

Primary   == <<"Major", "Minor", "Patch">>
PrimarySet == {"Major", "Minor", "Patch"}
Secondary == {"Epoch", "PreRelease", "Post", "Dev"}
ContextVars == {"Distance", "Dirty", "BumpedBranch", "BumpedCommitHash", "BumpedCommitHashShort",
                "BumpedTimestamp", "LastBranch", "LastCommitHash", "LastCommitHashShort", "LastTimestamp"}
TsPatterns == {"YYYY", "YY", "MM", "0M", "DD", "0D", "HH", "0H", "mm", "0m", "SS", "0S", "WW", "0W",
               "compact_date", "compact_datetime"}

IsVar(c, name) == c.t = "var" /\ c.v = name
VarsOf(sec) == [i \in 1..Len(sec) |-> IF sec[i].t = "var" THEN sec[i].v ELSE ""]
PrimaryRank(name) == CHOOSE k \in 1..3 : Primary[k] = name

\* -- placement rules --------------------------------------------------------
\* major/minor/patch only in core, each at most once, in that relative order;
\* epoch/pre-release/post/dev only in extra_core, each at most once;
\* every ts() pattern known (or a raw %-format); at least one component at all
NoDupVars(sec, names) ==
  \A i, j \in 1..Len(sec) : (i < j /\ sec[i].t = "var" /\ sec[j].t = "var" /\ sec[i].v \in names) => sec[i].v # sec[j].v
PrimaryInOrder(core) ==
  \A i, j \in 1..Len(core) :
     (i < j /\ core[i].t = "var" /\ core[j].t = "var" /\ core[i].v \in PrimarySet /\ core[j].v \in PrimarySet)
       => PrimaryRank(core[i].v) < PrimaryRank(core[j].v)
NoneOf(sec, names) == \A i \in 1..Len(sec) : ~(sec[i].t = "var" /\ sec[i].v \in names)
TsKnown(sec, known) == \A i \in 1..Len(sec) : sec[i].t = "ts" => sec[i].v \in known
ValidSchemaWith(sch, known) ==
  /\ Len(sch.core) + Len(sch.extra) + Len(sch.build) > 0
  /\ NoneOf(sch.core, Secondary) /\ NoDupVars(sch.core, PrimarySet) /\ PrimaryInOrder(sch.core)
  /\ NoneOf(sch.extra, PrimarySet) /\ NoDupVars(sch.extra, Secondary)
  /\ NoneOf(sch.build, PrimarySet) /\ NoneOf(sch.build, Secondary)
  /\ TsKnown(sch.core, known) /\ TsKnown(sch.extra, known) /\ TsKnown(sch.build, known)
ValidSchema(sch) == ValidSchemaWith(sch, TsPatterns)

\* -- presets ------------------------------------------------------------------
StandardCore == <<CVar("Major"), CVar("Minor"), CVar("Patch")>>
CalverCore   == <<CTs("YYYY"), CTs("MM"), CTs("DD"), CVar("Patch")>>
ExtraTier(k) == CASE k = 0 -> <<CVar("Epoch")>>
                  [] k = 1 -> <<CVar("Epoch"), CVar("PreRelease")>>
                  [] k = 2 -> <<CVar("Epoch"), CVar("PreRelease"), CVar("Post")>>
                  [] k = 3 -> <<CVar("Epoch"), CVar("PreRelease"), CVar("Post"), CVar("Dev")>>
BuildContext == <<CVar("BumpedBranch"), CVar("Distance"), CVar("BumpedCommitHashShort")>>
Mk(core, k, ctx) == [core |-> core, extra |-> ExtraTier(k), build |-> IF ctx THEN BuildContext ELSE <<>>]

\* the tier of the smart presets depends only on dirty, distance, pre-release, post
\* (dirty: 1 = true; distance/pre/post as in the variables, -1 = unset)
SmartTier(dirty, distance, hasPre, hasPost) ==
  IF dirty = 1 THEN 3
  ELSE IF distance > 0 \/ (hasPre /\ hasPost) THEN 2
  ELSE IF hasPre THEN 1 ELSE 0
SmartContext(dirty, distance) == dirty = 1 \/ distance > 0

FamilyCore(fam) == IF fam = "standard" THEN StandardCore ELSE CalverCore
\* preset name = family ++ suffix ; suffix table
PresetSuffixes == {"", "-no-context", "-context", "-base", "-base-prerelease", "-base-prerelease-post",
                   "-base-prerelease-post-dev", "-base-context", "-base-prerelease-context",
                   "-base-prerelease-post-context", "-base-prerelease-post-dev-context"}
PresetSchema(fam, suffix, dirty, distance, hasPre, hasPost) ==
  LET core == FamilyCore(fam)  tier == SmartTier(dirty, distance, hasPre, hasPost) IN
  CASE suffix = ""            -> Mk(core, tier, SmartContext(dirty, distance))
    [] suffix = "-no-context" -> Mk(core, tier, FALSE)
    [] suffix = "-context"    -> Mk(core, tier, TRUE)
    [] suffix = "-base"                             -> Mk(core, 0, FALSE)
    [] suffix = "-base-prerelease"                  -> Mk(core, 1, FALSE)
    [] suffix = "-base-prerelease-post"             -> Mk(core, 2, FALSE)
    [] suffix = "-base-prerelease-post-dev"         -> Mk(core, 3, FALSE)
    [] suffix = "-base-context"                     -> Mk(core, 0, TRUE)
    [] suffix = "-base-prerelease-context"          -> Mk(core, 1, TRUE)
    [] suffix = "-base-prerelease-post-context"     -> Mk(core, 2, TRUE)
    [] suffix = "-base-prerelease-post-dev-context" -> Mk(core, 3, TRUE)
=============================================================================
