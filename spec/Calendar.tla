------------------------------- MODULE Calendar -------------------------------
(* The proleptic Gregorian calendar in UTC as a successor automaton: one state   *)
(* per day from 1970-01-01 (a Thursday), advanced by NextDay with month lengths   *)
(* and the leap rule.  No division-based civil-date formula is used, so nothing   *)
(* is shared with the chrono crate.  An instant is (day, second-of-day) because   *)
(* seconds up to 2199 do not fit TLC's 32-bit integers.                           *)
EXTENDS Text

Leap(y) == (y % 4 = 0 /\ y % 100 # 0) \/ y % 400 = 0
MonthLen(y, m) == CASE m \in {1, 3, 5, 7, 8, 10, 12} -> 31
                    [] m \in {4, 6, 9, 11} -> 30
                    [] m = 2 -> IF Leap(y) THEN 29 ELSE 28

\* wd: 0 = Monday ... 6 = Sunday ; yd: day of the year, 1-based
Day0 == [day |-> 0, y |-> 1970, m |-> 1, d |-> 1, wd |-> 3, yd |-> 1]
NextDayOf(c) ==
  IF c.d < MonthLen(c.y, c.m)
  THEN [c EXCEPT !.day = @ + 1, !.d = @ + 1, !.wd = (@ + 1) % 7, !.yd = @ + 1]
  ELSE IF c.m < 12
  THEN [c EXCEPT !.day = @ + 1, !.m = @ + 1, !.d = 1, !.wd = (@ + 1) % 7, !.yd = @ + 1]
  ELSE [c EXCEPT !.day = @ + 1, !.y = @ + 1, !.m = 1, !.d = 1, !.wd = (@ + 1) % 7, !.yd = 1]

\* decimal text of a natural, optionally zero-padded to a width
RECURSIVE DecRev(_)
DecRev(n) == IF n < 10 THEN <<48 + n>> ELSE <<48 + (n % 10)>> \o DecRev(n \div 10)
Rev(s) == [i \in 1..Len(s) |-> s[Len(s) + 1 - i]]
Dec(n) == Rev(DecRev(n))
RECURSIVE PadTo(_, _)
PadTo(t, w) == IF Len(t) >= w THEN t ELSE PadTo(<<ZERO>> \o t, w)
Dec2(n) == PadTo(Dec(n), 2)

\* week of the year with Monday as first day; days before the first Monday are week 0
WeekMon(c) == (c.yd + 6 - c.wd) \div 7

Patterns == <<"YYYY", "YY", "MM", "0M", "DD", "0D", "HH", "0H", "mm", "0m", "SS", "0S", "WW", "0W",
              "compact_date", "compact_datetime">>
Field(p, c, sod) ==
  LET hh == sod \div 3600  mi == (sod % 3600) \div 60  ss == sod % 60 IN
  CASE p = "YYYY" -> PadTo(Dec(c.y), 4)
    [] p = "YY"   -> Dec2(c.y % 100)
    [] p = "MM"   -> Dec(c.m)       [] p = "0M" -> Dec2(c.m)
    [] p = "DD"   -> Dec(c.d)       [] p = "0D" -> Dec2(c.d)
    [] p = "HH"   -> Dec(hh)        [] p = "0H" -> Dec2(hh)
    [] p = "mm"   -> Dec(mi)        [] p = "0m" -> Dec2(mi)
    [] p = "SS"   -> Dec(ss)        [] p = "0S" -> Dec2(ss)
    [] p = "WW"   -> Dec(WeekMon(c)) [] p = "0W" -> Dec2(WeekMon(c))
    [] p = "compact_date"     -> PadTo(Dec(c.y), 4) \o Dec2(c.m) \o Dec2(c.d)
    [] p = "compact_datetime" -> PadTo(Dec(c.y), 4) \o Dec2(c.m) \o Dec2(c.d) \o Dec2(hh) \o Dec2(mi) \o Dec2(ss)
AllFields(c, sod) == [k \in 1..Len(Patterns) |-> Field(Patterns[k], c, sod)]
\* ---- closed form: days since 1970-01-01 of a civil date (era arithmetic, years >= 1970) ----
\* MC_Calendar ties it to the automaton on every day it walks; trace specs use it to validate
\* the civil fields of instants far beyond that range (the recorders' own arithmetic is not trusted)
DaysFromCivil(y, m, d) ==
  LET yy  == IF m <= 2 THEN y - 1 ELSE y
      era == yy \div 400
      yoe == yy - era * 400
      mp  == (m + 9) % 12                          \* March = 0
      doy == (153 * mp + 2) \div 5 + d - 1
      doe == yoe * 365 + yoe \div 4 - yoe \div 100 + doy
  IN era * 146097 + doe - 719468
ValidCivil(c) == /\ c.y >= 1970 /\ c.m \in 1..12 /\ c.d \in 1..MonthLen(c.y, c.m)
                 /\ c.day = DaysFromCivil(c.y, c.m, c.d)
                 /\ c.wd = (c.day + 3) % 7
                 /\ c.yd = c.day - DaysFromCivil(c.y, 1, 1) + 1
=============================================================================
