------------------------------ MODULE MC_Pep440 ------------------------------
(* Every string up to MaxLen over Alphabet: the state is the text, the action    *)
(* appends a symbol.  Invariants: the greedy parser accepts exactly the strings   *)
(* that have a decomposition, its value is one of the decompositions, the normal  *)
(* form is accepted and is a fixed point of normalisation.                       *)
EXTENDS Pep440Grammar, TLC, Json
CONSTANTS Alphabet, MaxLen, Emit
VARIABLE s
Init == s = <<>>
Next == Len(s) < MaxLen /\ \E c \in Alphabet : s' = Append(s, c)
Spec == Init /\ [][Next]_s

Core(st) == [ep |-> st.ep, rel |-> st.rel, pre |-> st.pre, post |-> st.post, dev |-> st.dev, loc |-> st.loc, hasLoc |-> st.hasLoc]
GreedyIsComplete == GreedyAccepts(s) <=> IsPep440(s)
GreedyIsADecomposition == GreedyAccepts(s) => Core(Greedy(s)) \in { Core(d) : d \in Decomps(s) }
NormalIsFixedPoint ==
  GreedyAccepts(s) => LET n == NormalOf(s) IN
     /\ GreedyAccepts(n) /\ NormalOf(n) = n
     /\ AllAscii(n)
AsciiOnly == IsPep440(s) => AllAscii(s)

EmitLine ==
  Emit => PrintT("REPLAY " \o ToJson([ s |-> s, ok |-> GreedyAccepts(s),
                    normal |-> IF GreedyAccepts(s) THEN NormalOf(s) ELSE <<>> ]))
=============================================================================
