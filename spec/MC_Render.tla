------------------------------- MODULE MC_Render -------------------------------
(* Enumerates schemas component by component (core, then extra_core, then build;  *)
(* only schemas that satisfy the placement rules are kept) and, for each schema   *)
(* and each of a few variable assignments, checks C01 as a theorem of the design  *)
(* (the SemVer rendering is in the SemVer language, the PEP 440 rendering is an    *)
(* accepted fixed point of normalisation, both ASCII) and prints the expected      *)
(* renderings for replay.                                                          *)
EXTENDS Render, TLC, Json
SV == INSTANCE SemVerGrammar
PG == INSTANCE Pep440Grammar

CONSTANTS MaxCore, MaxExtra, MaxBuild, Emit

S(str) == CASE str = "x" -> <<120>> [] str = "007" -> <<48,48,55>> [] str = "k" -> <<107>>
            [] str = "rel.1" -> <<114,101,108,46,49>> [] str = "A..b" -> <<65,46,46,98>>
            [] str = "feature/X-1" -> <<102,101,97,116,117,114,101,47,88,45,49>>
            [] str = "A1b2c3d4e5f6" -> <<65,49,98,50,99,51,100,52,101,53,102,54>>
            [] str = "abc" -> <<97,98,99>> [] str = "v1.0" -> <<118,49,46,48>> [] str = "e--" -> <<233,45,45>>
            [] str = "1709209545" -> <<49,55,48,57,50,48,57,53,52,53>>
            [] str = "4107542400" -> <<52,49,48,55,53,52,50,52,48,48>>
CoreSyms  == { CVar("Major"), CVar("Minor"), CVar("Patch"), CStr(S("x")), CStr(S("007")), CUInt(5),
               CVar("BumpedBranch"), CTs("YYYY"), CCustom(S("k")) }
ExtraSyms == { CVar("Epoch"), CVar("PreRelease"), CVar("Post"), CVar("Dev"), CStr(S("rel.1")),
               CVar("BumpedBranch"), CUInt(2147483647) }
BuildSyms == { CVar("BumpedBranch"), CVar("Distance"), CVar("BumpedCommitHashShort"), CStr(S("A..b")),
               CUInt(0), CVar("Dirty") }

\* 2024-02-29 (Thursday, day 19782, 60th day) 12:25:45 ; 2100-03-01 (Monday, day 47541, 60th day) 00:00:00
I2024 == [c |-> [day |-> 19782, y |-> 2024, m |-> 2, d |-> 29, wd |-> 3, yd |-> 60], sod |-> 44745]
I2100 == [c |-> [day |-> 47541, y |-> 2100, m |-> 3, d |-> 1, wd |-> 0, yd |-> 60], sod |-> 0]
V(e, ma, mi, pa, l, n, po, d) == [epoch |-> e, major |-> ma, minor |-> mi, patch |-> pa, pre |-> [l |-> l, n |-> n], post |-> po, dev |-> d]
Assignments == <<
  [ v |-> V(2, 1, 2, 3, "rc", 4, 5, 6), distance |-> 7, dirty |-> 1, branch |-> SomeText(S("feature/X-1")),
    hash |-> SomeText(S("A1b2c3d4e5f6")), custom |-> << <<S("k"), S("007")>> >>, bts |-> I2024, btsText |-> SomeText(S("1709209545")),
    lts |-> NoInstant, ltsText |-> NoText, lbranch |-> NoText, lhash |-> NoText ],
  [ v |-> V(0, 0, NONE, NONE, "alpha", NONE, NONE, NONE), distance |-> NONE, dirty |-> NONE, branch |-> NoText,
    hash |-> SomeText(S("abc")), custom |-> << <<S("k"), S("v1.0")>> >>, bts |-> NoInstant, btsText |-> NoText,
    lts |-> I2100, ltsText |-> SomeText(S("4107542400")), lbranch |-> NoText, lhash |-> NoText ],
  [ v |-> V(NONE, 10, 0, 7, "none", NONE, 0, NONE), distance |-> 0, dirty |-> 0, branch |-> SomeText(S("e--")),
    hash |-> NoText, custom |-> <<>>, bts |-> NoInstant, btsText |-> NoText,
    lts |-> NoInstant, ltsText |-> NoText, lbranch |-> NoText, lhash |-> NoText ] >>

VARIABLE sch
Init == sch = [core |-> <<>>, extra |-> <<>>, build |-> <<>>]
Grow(sec, syms, max) == /\ Len(sch[sec]) < max
                        /\ \E c \in syms : LET n == [sch EXCEPT ![sec] = Append(@, c)] IN
                              /\ ValidSchema(n) /\ sch' = n
Next == \/ sch.extra = <<>> /\ sch.build = <<>> /\ Grow("core", CoreSyms, MaxCore)
        \/ sch.build = <<>> /\ Grow("extra", ExtraSyms, MaxExtra)
        \/ Grow("build", BuildSyms, MaxBuild)
Spec == Init /\ [][Next]_sch

NonEmpty == Len(sch.core) + Len(sch.extra) + Len(sch.build) > 0
\* C01 as a theorem about the design
RenderInGrammar ==
  NonEmpty => \A k \in 1..Len(Assignments) :
     LET sv == RenderSemVer(sch, Assignments[k])   pp == RenderPep440(sch, Assignments[k]) IN
       /\ SV!IsSemVer(sv) /\ AllAscii(sv)
       /\ PG!GreedyAccepts(pp) /\ PG!NormalOf(pp) = pp /\ AllAscii(pp)
EmitLine ==
  (Emit /\ NonEmpty) =>
     PrintT("REPLAY " \o ToJson([ sch |-> sch,
        out |-> [k \in 1..Len(Assignments) |->
                   [semver |-> RenderSemVer(sch, Assignments[k]), pep440 |-> RenderPep440(sch, Assignments[k]),
                    \* the pipeline normalises first (epoch 0 is dropped)
                    nsemver |-> RenderSemVer(sch, Normalized(Assignments[k])), npep440 |-> RenderPep440(sch, Normalized(Assignments[k]))]] ]))
EmitAssignments == PrintT("ASSIGN " \o ToJson(Assignments))
ASSUME EmitAssignments
=============================================================================
