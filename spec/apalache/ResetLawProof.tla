--------------------------- MODULE ResetLawProof ---------------------------
(* TLAPS proofs about ResetLaw: the reset law holds for EVERY step from EVERY     *)
(* well-formed state (unbounded integers), and well-formedness is inductive.       *)
EXTENDS ResetLaw, TLAPS
vars == <<epoch, major, minor, patch, label, num, post, dev, lastLevel, lastBumped>>
Spec == Init /\ [][Next]_vars

LEMMA InitWF == Init => WF
  BY DEF Init, WF

LEMMA StepLaw == Next => Law
  BY DEF Next, Law, HigherUnchanged, LowerResetOnBump, NoResetWithoutBump, StepEpoch, StepMajor, StepMinor, StepPatch,
         StepLabel, StepNum, StepPost, StepDev, Or0

LEMMA StepWF == WF /\ Next => WF'
<1> SUFFICES ASSUME WF, NEW ov \in Int, NEW bp \in Int, NEW ovl \in 0..3, NEW bpl \in 0..3,
                    ov >= -1, bp >= -1, ~(ovl # 0 /\ bpl # 0),
                    \/ StepEpoch(ov, bp) \/ StepMajor(ov, bp) \/ StepMinor(ov, bp) \/ StepPatch(ov, bp)
                    \/ StepLabel(ovl, ov, bpl) \/ StepNum(ov, bp) \/ StepPost(ov, bp) \/ StepDev(ov, bp)
             PROVE WF'
  BY DEF Next
<1>1. CASE StepEpoch(ov, bp)  BY <1>1 DEF WF, StepEpoch, Or0
<1>2. CASE StepMajor(ov, bp)  BY <1>2 DEF WF, StepMajor, Or0
<1>3. CASE StepMinor(ov, bp)  BY <1>3 DEF WF, StepMinor, Or0
<1>4. CASE StepPatch(ov, bp)  BY <1>4 DEF WF, StepPatch, Or0
<1>5. CASE StepLabel(ovl, ov, bpl)  BY <1>5 DEF WF, StepLabel, Or0
<1>6. CASE StepNum(ov, bp)  BY <1>6 DEF WF, StepNum, Or0
<1>7. CASE StepPost(ov, bp)  BY <1>7 DEF WF, StepPost, Or0
<1>8. CASE StepDev(ov, bp)  BY <1>8 DEF WF, StepDev, Or0
<1>. QED BY <1>1, <1>2, <1>3, <1>4, <1>5, <1>6, <1>7, <1>8

THEOREM WFInvariant == Spec => []WF
<1>1. Init => WF  BY InitWF
<1>2. WF /\ [Next]_vars => WF'
  <2>1. WF /\ Next => WF'  BY StepWF
  <2>2. WF /\ UNCHANGED vars => WF'  BY DEF WF, vars
  <2>. QED BY <2>1, <2>2
<1>. QED BY <1>1, <1>2, PTL DEF Spec

THEOREM LawAlways == Spec => [][Law]_vars
<1>1. [Next]_vars => [Law]_vars  BY StepLaw
<1>. QED BY <1>1, PTL DEF Spec
=============================================================================
