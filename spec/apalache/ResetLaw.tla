------------------------------- MODULE ResetLaw -------------------------------
(* The override / bump / reset-lower law of C05 for the default precedence order,     *)
(* on unbounded integers, for Apalache (symbolic): from ANY state and for ANY         *)
(* override value and bump amount, a step at level L leaves every level above L       *)
(* unchanged and resets every level below L when it bumps.  It is the integer-valued,  *)
(* unrolled instance of ZervOps!ProcNum / ProcLabel / ProcPreNum (same equations); TLC *)
(* checks those on small values, Apalache checks this for all values.                  *)
(* Levels: 1 epoch, 2 major, 3 minor, 4 patch, 5 label, 6 number, 7 post, 8 dev.        *)
(* -1 = unset.  label: 0 = no pre-release, 1 alpha, 2 beta, 3 rc.                       *)
EXTENDS Integers

VARIABLES
  \* @type: Int;
  epoch,
  \* @type: Int;
  major,
  \* @type: Int;
  minor,
  \* @type: Int;
  patch,
  \* @type: Int;
  label,
  \* @type: Int;
  num,
  \* @type: Int;
  post,
  \* @type: Int;
  dev,
  \* @type: Int;
  lastLevel,
  \* @type: Bool;
  lastBumped

Or0(x) == IF x = -1 THEN 0 ELSE x
\* any well-formed state
Init ==
  /\ epoch \in Int /\ epoch >= -1 /\ major \in Int /\ major >= -1 /\ minor \in Int /\ minor >= -1 /\ patch \in Int /\ patch >= -1
  /\ label \in 0..3 /\ num \in Int /\ num >= -1 /\ (label = 0 => num = -1)
  /\ post \in Int /\ post >= -1 /\ dev \in Int /\ dev >= -1
  /\ lastLevel = 0 /\ lastBumped = FALSE

\* reset of everything below level L (the code walks the order and resets each lower level)
RMajor(L) == IF L < 2 THEN 0 ELSE major
\* one numeric level: ov = -1 means no override, bp = -1 no bump
StepEpoch(ov, bp) ==
  LET base == IF ov # -1 THEN ov ELSE epoch IN
  /\ epoch' = IF bp # -1 THEN Or0(base) + bp ELSE base
  /\ (major' = IF bp # -1 THEN 0 ELSE major) /\ (minor' = IF bp # -1 THEN 0 ELSE minor) /\ (patch' = IF bp # -1 THEN 0 ELSE patch)
  /\ (label' = IF bp # -1 THEN 0 ELSE label) /\ (num' = IF bp # -1 THEN -1 ELSE num)
  /\ (post' = IF bp # -1 THEN -1 ELSE post) /\ (dev' = IF bp # -1 THEN -1 ELSE dev)
  /\ lastLevel' = 1 /\ lastBumped' = (bp # -1)
StepMajor(ov, bp) ==
  LET base == IF ov # -1 THEN ov ELSE major IN
  /\ major' = IF bp # -1 THEN Or0(base) + bp ELSE base
  /\ (minor' = IF bp # -1 THEN 0 ELSE minor) /\ (patch' = IF bp # -1 THEN 0 ELSE patch)
  /\ (label' = IF bp # -1 THEN 0 ELSE label) /\ (num' = IF bp # -1 THEN -1 ELSE num)
  /\ (post' = IF bp # -1 THEN -1 ELSE post) /\ (dev' = IF bp # -1 THEN -1 ELSE dev)
  /\ epoch' = epoch /\ lastLevel' = 2 /\ lastBumped' = (bp # -1)
StepMinor(ov, bp) ==
  LET base == IF ov # -1 THEN ov ELSE minor IN
  /\ minor' = IF bp # -1 THEN Or0(base) + bp ELSE base
  /\ patch' = IF bp # -1 THEN 0 ELSE patch
  /\ (label' = IF bp # -1 THEN 0 ELSE label) /\ (num' = IF bp # -1 THEN -1 ELSE num)
  /\ (post' = IF bp # -1 THEN -1 ELSE post) /\ (dev' = IF bp # -1 THEN -1 ELSE dev)
  /\ epoch' = epoch /\ major' = major /\ lastLevel' = 3 /\ lastBumped' = (bp # -1)
StepPatch(ov, bp) ==
  LET base == IF ov # -1 THEN ov ELSE patch IN
  /\ patch' = IF bp # -1 THEN Or0(base) + bp ELSE base
  /\ (label' = IF bp # -1 THEN 0 ELSE label) /\ (num' = IF bp # -1 THEN -1 ELSE num)
  /\ (post' = IF bp # -1 THEN -1 ELSE post) /\ (dev' = IF bp # -1 THEN -1 ELSE dev)
  /\ epoch' = epoch /\ major' = major /\ minor' = minor /\ lastLevel' = 4 /\ lastBumped' = (bp # -1)
\* the label: override keeps (or creates) the number, bump resets and sets number 0
StepLabel(ovl, ovn, bpl) ==
  LET l1 == IF ovl # 0 THEN ovl ELSE label
      n1 == IF ovl # 0 THEN (IF ovn # -1 THEN ovn ELSE IF label # 0 /\ num # -1 THEN num ELSE 0) ELSE num IN
  /\ label' = IF bpl # 0 THEN bpl ELSE l1
  /\ num' = IF bpl # 0 THEN 0 ELSE n1
  /\ (post' = IF bpl # 0 THEN -1 ELSE post) /\ (dev' = IF bpl # 0 THEN -1 ELSE dev)
  /\ epoch' = epoch /\ major' = major /\ minor' = minor /\ patch' = patch /\ lastLevel' = 5 /\ lastBumped' = (bpl # 0)
\* the number: creates an alpha pre-release when there is none
StepNum(ov, bp) ==
  LET l1 == IF ov # -1 /\ label = 0 THEN 1 ELSE label
      n1 == IF ov # -1 THEN ov ELSE num IN
  /\ label' = IF bp # -1 /\ l1 = 0 THEN 1 ELSE l1
  /\ num' = IF bp # -1 THEN (IF l1 = 0 THEN bp ELSE Or0(n1) + bp) ELSE n1
  /\ (post' = IF bp # -1 THEN -1 ELSE post) /\ (dev' = IF bp # -1 THEN -1 ELSE dev)
  /\ epoch' = epoch /\ major' = major /\ minor' = minor /\ patch' = patch /\ lastLevel' = 6 /\ lastBumped' = (bp # -1)
StepPost(ov, bp) ==
  LET base == IF ov # -1 THEN ov ELSE post IN
  /\ post' = IF bp # -1 THEN Or0(base) + bp ELSE base
  /\ dev' = IF bp # -1 THEN -1 ELSE dev
  /\ epoch' = epoch /\ major' = major /\ minor' = minor /\ patch' = patch /\ label' = label /\ num' = num
  /\ lastLevel' = 7 /\ lastBumped' = (bp # -1)
StepDev(ov, bp) ==
  LET base == IF ov # -1 THEN ov ELSE dev IN
  /\ dev' = IF bp # -1 THEN Or0(base) + bp ELSE base
  /\ epoch' = epoch /\ major' = major /\ minor' = minor /\ patch' = patch /\ label' = label /\ num' = num /\ post' = post
  /\ lastLevel' = 8 /\ lastBumped' = (bp # -1)

Next ==
  \E ov \in Int, bp \in Int, ovl \in 0..3, bpl \in 0..3 :
     /\ ov >= -1 /\ bp >= -1 /\ ~(ovl # 0 /\ bpl # 0)
     /\ \/ StepEpoch(ov, bp) \/ StepMajor(ov, bp) \/ StepMinor(ov, bp) \/ StepPatch(ov, bp)
        \/ StepLabel(ovl, ov, bpl) \/ StepNum(ov, bp) \/ StepPost(ov, bp) \/ StepDev(ov, bp)

\* ---- the law, as an action invariant (checked from every state: Init is arbitrary) ----
HigherUnchanged ==
  /\ lastLevel' > 1 => epoch' = epoch
  /\ lastLevel' > 2 => major' = major
  /\ lastLevel' > 3 => minor' = minor
  /\ lastLevel' > 4 => patch' = patch
  /\ lastLevel' > 6 => (label' = label /\ num' = num)
  /\ lastLevel' > 7 => post' = post
LowerResetOnBump ==
  lastBumped' =>
     /\ lastLevel' < 2 => major' = 0
     /\ lastLevel' < 3 => minor' = 0
     /\ lastLevel' < 4 => patch' = 0
     /\ lastLevel' < 5 => (label' = 0 /\ num' = -1)
     /\ lastLevel' = 5 => num' = 0
     /\ lastLevel' < 7 => post' = -1
     /\ lastLevel' < 8 => dev' = -1
NoResetWithoutBump ==
  ~lastBumped' =>
     /\ lastLevel' # 2 => major' = major
     /\ lastLevel' # 3 => minor' = minor
     /\ lastLevel' # 4 => patch' = patch
     /\ lastLevel' # 7 => post' = post
     /\ lastLevel' # 8 => dev' = dev
Law == HigherUnchanged /\ LowerResetOnBump /\ NoResetWithoutBump
\* well-formedness is preserved (state invariant, inductive)
WF == /\ epoch \in Int /\ major \in Int /\ minor \in Int /\ patch \in Int /\ post \in Int /\ dev \in Int /\ num \in Int
      /\ epoch >= -1 /\ major >= -1 /\ minor >= -1 /\ patch >= -1 /\ post >= -1 /\ dev >= -1 /\ num >= -1
      /\ label \in 0..3 /\ (label = 0 => num = -1)
=============================================================================
