---------------------------- MODULE MC_ResetLawLink ----------------------------
(* Ties ResetLaw (checked by Apalache for all integers) to ZervOps (the operators the  *)
(* TLC models and the trace specifications use): on small values every transition of    *)
(* ResetLaw is exactly ZervOps!ProcByName at that level for some override / bump.       *)
EXTENDS ResetLaw, TLC
Z == INSTANCE ZervOps
SmallInt == -1..1
LabelName(k) == CASE k = 0 -> "none" [] k = 1 -> "alpha" [] k = 2 -> "beta" [] k = 3 -> "rc"
Rec == [epoch |-> epoch, major |-> major, minor |-> minor, patch |-> patch, pre |-> [l |-> LabelName(label), n |-> num], post |-> post, dev |-> dev]
RecNext == [epoch |-> epoch', major |-> major', minor |-> minor', patch |-> patch', pre |-> [l |-> LabelName(label'), n |-> num'], post |-> post', dev |-> dev']
NoArgs == [epoch |-> -1, major |-> -1, minor |-> -1, patch |-> -1, prenum |-> -1, post |-> -1, dev |-> -1, label |-> ""]
LevelName(k) == CASE k = 1 -> "Epoch" [] k = 2 -> "Major" [] k = 3 -> "Minor" [] k = 4 -> "Patch" [] k = 5 -> "PreReleaseLabel"
                  [] k = 6 -> "PreReleaseNum" [] k = 7 -> "Post" [] k = 8 -> "Dev"
FieldName(k) == CASE k = 1 -> "epoch" [] k = 2 -> "major" [] k = 3 -> "minor" [] k = 4 -> "patch" [] k = 6 -> "prenum" [] k = 7 -> "post" [] k = 8 -> "dev"
LabelArg(k) == IF k = 0 THEN "" ELSE LabelName(k)
Linked ==
  lastLevel' # 0 =>
    IF lastLevel' = 5
    THEN \E ovl \in 0..3, bpl \in 0..3, ovn \in SmallInt :
           RecNext = Z!ProcByName(Rec, Z!DefaultOrder, "PreReleaseLabel",
                                  [ov |-> [NoArgs EXCEPT !.label = LabelArg(ovl), !.prenum = ovn], bp |-> [NoArgs EXCEPT !.label = LabelArg(bpl)]])
    ELSE \E ov \in SmallInt, bp \in SmallInt :
           RecNext = Z!ProcByName(Rec, Z!DefaultOrder, LevelName(lastLevel'),
                                  [ov |-> [NoArgs EXCEPT ![FieldName(lastLevel')] = ov], bp |-> [NoArgs EXCEPT ![FieldName(lastLevel')] = bp]])
LinkSpec == Init /\ [][Next]_<<epoch, major, minor, patch, label, num, post, dev, lastLevel, lastBumped>>
LinkProp == [][Linked]_<<epoch, major, minor, patch, label, num, post, dev, lastLevel, lastBumped>>
\* keep the exploration small: values stay in SmallInt
Bound == lastLevel = 0      \* one step from every small state is enough: the law is about single steps
=============================================================================
