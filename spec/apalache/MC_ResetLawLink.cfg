SPECIFICATION LinkSpec
CONSTANT Int <- SmallInt
CONSTRAINT Bound
PROPERTY LinkProp
CHECK_DEADLOCK FALSE
