------------------------------- MODULE Text -------------------------------
(* Text is a sequence of Unicode scalar values (naturals).  Only ASCII letters,  *)
(* ASCII digits and a few punctuation marks are ever distinguished; every other *)
(* code point is "something else", so no Unicode tables are needed.             *)
EXTENDS Integers, Sequences, FiniteSets

IsDigit(c) == c >= 48 /\ c <= 57
IsUpper(c) == c >= 65 /\ c <= 90
IsLower(c) == c >= 97 /\ c <= 122
IsAlpha(c) == IsUpper(c) \/ IsLower(c)
IsAlnum(c) == IsDigit(c) \/ IsAlpha(c)
IsAscii(c) == c < 128
LowerC(c)  == IF IsUpper(c) THEN c + 32 ELSE c
LowerS(s)  == [i \in 1..Len(s) |-> LowerC(s[i])]

DOT   == 46
DASH  == 45
PLUS  == 43
USCORE == 95
BANG  == 33
ZERO  == 48

AllDigits(s) == Len(s) > 0 /\ \A i \in 1..Len(s) : IsDigit(s[i])
AllAscii(s)  == \A i \in 1..Len(s) : IsAscii(s[i])

Take(s, n) == IF n >= Len(s) THEN s ELSE SubSeq(s, 1, n)
Drop(s, n) == IF n >= Len(s) THEN <<>> ELSE SubSeq(s, n + 1, Len(s))

\* strip leading zeros of a digit string, keeping one digit
RECURSIVE StripZ(_)
StripZ(d) == IF Len(d) > 1 /\ d[1] = ZERO THEN StripZ(Tail(d)) ELSE d

\* canonical decimal numeral: no leading zero unless the numeral is "0"
IsCanonNum(d) == AllDigits(d) /\ (Len(d) = 1 \/ d[1] # ZERO)

\* Split s on every occurrence of the code point c (empty pieces are kept)
RECURSIVE SplitFrom(_, _, _, _, _)
SplitFrom(s, c, i, cur, acc) ==
  IF i > Len(s) THEN Append(acc, cur)
  ELSE IF s[i] = c THEN SplitFrom(s, c, i + 1, <<>>, Append(acc, cur))
  ELSE SplitFrom(s, c, i + 1, Append(cur, s[i]), acc)
Split(s, c) == SplitFrom(s, c, 1, <<>>, <<>>)

\* Join a sequence of texts with a separator text
RECURSIVE JoinFrom(_, _, _)
JoinFrom(parts, sep, i) ==
  IF i > Len(parts) THEN <<>>
  ELSE IF i = Len(parts) THEN parts[i]
  ELSE parts[i] \o sep \o JoinFrom(parts, sep, i + 1)
Join(parts, sep) == JoinFrom(parts, sep, 1)

\* index of the first occurrence of c in s, 0 if none
RECURSIVE IndexFrom(_, _, _)
IndexFrom(s, c, i) == IF i > Len(s) THEN 0 ELSE IF s[i] = c THEN i ELSE IndexFrom(s, c, i + 1)
IndexOf(s, c) == IndexFrom(s, c, 1)

\* lexicographic comparison of two int sequences: -1, 0, 1
RECURSIVE LexCmpFrom(_, _, _)
LexCmpFrom(a, b, i) ==
  IF i > Len(a) /\ i > Len(b) THEN 0
  ELSE IF i > Len(a) THEN -1
  ELSE IF i > Len(b) THEN 1
  ELSE IF a[i] < b[i] THEN -1
  ELSE IF a[i] > b[i] THEN 1
  ELSE LexCmpFrom(a, b, i + 1)
LexCmp(a, b) == LexCmpFrom(a, b, 1)

\* numeric comparison of canonical numerals (digit sequences of any length)
NumCmp(a, b) ==
  IF Len(a) < Len(b) THEN -1 ELSE IF Len(a) > Len(b) THEN 1 ELSE LexCmp(a, b)

StartsWith(s, p) == Len(s) >= Len(p) /\ SubSeq(s, 1, Len(p)) = p
=============================================================================
