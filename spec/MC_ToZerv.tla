-------------------------------- MODULE MC_ToZerv --------------------------------
(* Every pre-release identifier list up to MaxLen over a label-heavy alphabet: the     *)
(* state is the list, the action appends an identifier.  Invariants: both renderings   *)
(* of the converted object are well-formed (grammar modules); a list in zerv's         *)
(* canonical shape renders to itself.  Prints the expected `zerv render` outputs.      *)
EXTENDS ToZerv, TLC, Json
SVG == INSTANCE SemVerGrammar
PPG == INSTANCE Pep440Grammar
CONSTANTS MaxLen, Emit
T(t) == [num |-> FALSE, n |-> 0, t |-> t]
Nm(k) == [num |-> TRUE, n |-> k, t |-> <<>>]
Ids == { T(W("epoch")), T(W("alpha")), T(W("rc")), T(W("post")), T(W("dev")), T(<<120>>), T(<<65,108,112,104,97>>), T(<<80,79,83,84>>),
         T(W("pre")), Nm(0), Nm(5) }
VARIABLE ids
Init == ids = <<>>
Next == Len(ids) < MaxLen /\ \E id \in Ids : ids' = Append(ids, id)
Spec == Init /\ [][Next]_ids
Sv == [major |-> 1, minor |-> 0, patch |-> 2, pre |-> ids, build |-> << T(<<98>>), Nm(7) >>]
RenderingsWellFormed == /\ SVG!IsSemVer(RenderedSemVer(Sv))
              /\ PPG!GreedyAccepts(RenderedPep440(Sv)) /\ PPG!NormalOf(RenderedPep440(Sv)) = RenderedPep440(Sv)
\* canonical shape: [epoch E] [label N] [post P] [dev D], each label followed by its number, E >= 1
Canonical == LET n == Len(ids) IN
  \E e, p, o, d \in BOOLEAN :
     /\ n = 2 * ((IF e THEN 1 ELSE 0) + (IF p THEN 1 ELSE 0) + (IF o THEN 1 ELSE 0) + (IF d THEN 1 ELSE 0))
     /\ LET i1 == 1  i2 == i1 + (IF e THEN 2 ELSE 0)  i3 == i2 + (IF p THEN 2 ELSE 0)  i4 == i3 + (IF o THEN 2 ELSE 0) IN
        /\ e => (ids[i1] = T(W("epoch")) /\ ids[i1 + 1].num /\ ids[i1 + 1].n >= 1)
        /\ p => (ids[i2] \in {T(W("alpha")), T(W("rc"))} /\ ids[i2 + 1].num)
        /\ o => (ids[i3] = T(W("post")) /\ ids[i3 + 1].num)
        /\ d => (ids[i4] = T(W("dev")) /\ ids[i4 + 1].num)
CanonicalUnchanged == Canonical => RenderedSemVer(Sv) = SemVerString(Sv)
EmitLine == Emit => PrintT("REPLAY " \o ToJson([ s |-> SemVerString(Sv), semver |-> RenderedSemVer(Sv), pep440 |-> RenderedPep440(Sv), canonical |-> Canonical ]))
=============================================================================
