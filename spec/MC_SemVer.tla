------------------------------ MODULE MC_SemVer ------------------------------
(* Viable-prefix exploration of the SemVer automaton.  The state is (text,       *)
(* automaton state); the only action appends a symbol.  With AllStrings = TRUE   *)
(* dead states are extended too (every string up to MaxLen); otherwise only live *)
(* prefixes are extended up to MaxLen, so the explored strings are the viable    *)
(* prefixes plus every one-symbol dead extension (strings one edit away from the *)
(* language).  Invariant: BNF predicate <=> automaton acceptance, and printing   *)
(* the parse of an accepted string gives it back.  Emit prints REPLAY lines.     *)
EXTENDS SemVerGrammar, TLC, Json

CONSTANTS Alphabet, MaxLen, AllStrings, Emit

VARIABLES s, q
vars == <<s, q>>
Init == s = <<>> /\ q = Q0
Next == /\ Len(s) < MaxLen
        /\ AllStrings \/ q.st # "dead"
        /\ \E c \in Alphabet : s' = Append(s, c) /\ q' = Step(q, c)
Spec == Init /\ [][Next]_vars

TwoFormulationsAgree == Accepting(q) <=> IsSemVer(s)
RoundTrip == IsSemVer(s) => Print(Parse(s)) = StripV(s)
AsciiOnly == IsSemVer(s) => AllAscii(s)

EmitLine ==
  Emit => PrintT("REPLAY " \o ToJson([ s |-> s, ok |-> IsSemVer(s),
                    printed |-> IF IsSemVer(s) THEN Print(Parse(s)) ELSE <<>> ]))
=============================================================================
