---------------------------- MODULE Trace_Pep440 ----------------------------
(* Validates recorded PEP440::from_str / to_string / `check` observations on     *)
(* structured and mutated strings against the PEP 440 grammar and normal form.  *)
EXTENDS Pep440Grammar, TLC, Json, IOUtils
Rec == ndJsonDeserialize(IOEnv.TRACE)
VARIABLE l
Init == l = 1

\* A number beyond u32 cannot be represented: rejecting the string is what C07
\* asks for, printing it exactly is what C09 asks for; both are accepted.
Faithful(e, n) == /\ e.printed = n /\ e.printed2 = n /\ e.eq /\ e.check_norm = n
EventOk(e) ==
  LET s == e.s IN
  /\ ~e.panic
  /\ e.check = e.ok
  /\ IF ~GreedyAccepts(s) THEN ~e.ok
     ELSE IF ~AllFitU32(Greedy(s)) THEN (e.ok => Faithful(e, NormalOf(s)))
     ELSE e.ok /\ Faithful(e, NormalOf(s))

Next == /\ l <= Len(Rec)
        /\ IF EventOk(Rec[l]) THEN TRUE ELSE PrintT("MISMATCH " \o ToString(l))
        /\ l' = l + 1
Spec == Init /\ [][Next]_l
AllConsumed == IF TLCGet("stats").diameter = Len(Rec) + 1 THEN TRUE
               ELSE PrintT("UNCONSUMED " \o ToString(TLCGet("stats").diameter)) /\ FALSE
=============================================================================
