-------------------------------- MODULE Trace_Cli --------------------------------
(* Every recorded run of the real zerv binary must end in an acceptable outcome of    *)
(* the protocol in Cli.tla.  The reason printed for a rejected run is the outcome.    *)
EXTENDS Cli, TLC, Json, IOUtils
Rec == ndJsonDeserialize(IOEnv.TRACE)
VARIABLE l
Init == l = 1
Next == /\ l <= Len(Rec)
        /\ LET why == Outcome(Rec[l].o) IN
           IF why \in {"Ok", "CleanError"} THEN TRUE ELSE PrintT("MISMATCH " \o ToString(l) \o " " \o why)
        /\ l' = l + 1
Spec == Init /\ [][Next]_l
AllConsumed == IF TLCGet("stats").diameter = Len(Rec) + 1 THEN TRUE
               ELSE PrintT("UNCONSUMED " \o ToString(TLCGet("stats").diameter)) /\ FALSE
=============================================================================
