-------------------------------- MODULE Trace_Cli --------------------------------
(* Every recorded run of the real zerv binary must end in an acceptable outcome of    *)
(* the protocol in Cli.tla.  The reason printed for a rejected run is the outcome.    *)
EXTENDS Cli, TLC, Json, IOUtils
Rec == ndJsonDeserialize(IOEnv.TRACE)
(* A memo ties the ways a git sub-command can FAIL together: for one scenario and one     *)
(* position, a call that exits non-zero with a message, exits non-zero silently, or is       *)
(* killed by a signal is "a git sub-command failing" each time - zerv may tolerate the        *)
(* failure of that call (Ok) or report it (CleanError), but not depending on how it died.     *)
VARIABLES l, memo
Init == l = 1 /\ memo = <<>>              \* sequence of [key, class]
PlainFailures == {"fail-generic", "fail-empty", "killed"}
IsPlain(e) == e.k = "plan" /\ e.extra.single_pos > 0 /\ e.extra.single_mode \in PlainFailures
KeyOf(e) == <<e.extra.scenario, e.extra.single_pos>>
Seen(key) == \E i \in 1..Len(memo) : memo[i].key = key
ClassAt(key) == (CHOOSE i \in 1..Len(memo) : memo[i].key = key)
Reason(e) ==
  LET why == Outcome(e.o) IN
  IF why \notin {"Ok", "CleanError"} THEN why
  ELSE IF IsPlain(e) /\ Seen(KeyOf(e)) /\ memo[ClassAt(KeyOf(e))].class # why THEN "outcome-depends-on-how-git-failed"
  ELSE "ok"
Next == /\ l <= Len(Rec)
        /\ LET e == Rec[l]  why == Reason(e) IN
           /\ IF why = "ok" THEN TRUE ELSE PrintT("MISMATCH " \o ToString(l) \o " " \o why)
           /\ memo' = IF IsPlain(e) /\ ~Seen(KeyOf(e)) /\ Outcome(e.o) \in {"Ok", "CleanError"}
                       THEN Append(memo, [key |-> KeyOf(e), class |-> Outcome(e.o)]) ELSE memo
        /\ l' = l + 1
Spec == Init /\ [][Next]_<<l, memo>>
AllConsumed == IF TLCGet("stats").diameter = Len(Rec) + 1 THEN TRUE
               ELSE PrintT("UNCONSUMED " \o ToString(TLCGet("stats").diameter)) /\ FALSE
=============================================================================
