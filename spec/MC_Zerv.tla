-------------------------------- MODULE MC_Zerv --------------------------------
(* Bounded argument spaces for ZervModel, the closed-form law of C05 as an        *)
(* invariant of final states, and generation of one REPLAY line per behaviour.    *)
(*  Mode "names": all subsets of {override, bump} on the seven numeric levels     *)
(*                 x label {none, override, bump} x start versions.               *)
(*  Mode "index": index-addressed operations (one or two) on a custom schema with  *)
(*                 var / uint / str / ts / VCS / custom components, crossed with    *)
(*                 a few by-name flags.                                            *)
(*  Mode "vcs":   VCS overrides, --clean, context control, presets and tiers.      *)
EXTENDS ZervModel, Json
R == INSTANCE Render

CONSTANTS Mode, Emit, OpChoices     \* OpChoices: subset of {0,1,2,3}: none, override, bump, both

Fields == <<"epoch", "major", "minor", "patch", "prenum", "post", "dev">>
NoOv == [epoch |-> NONE, major |-> NONE, minor |-> NONE, patch |-> NONE, prenum |-> NONE, post |-> NONE, dev |-> NONE, label |-> ""]
NoVcs == [distance |-> NONE, dirty |-> FALSE, nodirty |-> FALSE, clean |-> FALSE, branch |-> NONE, hash |-> NONE, ts |-> NONE, nbc |-> FALSE, bc |-> FALSE]
NoCtx == [distance |-> NONE, dirty |-> NONE, branch |-> NONE, hash |-> NONE, ts |-> NONE]
V(e, ma, mi, pa, l, n, po, d) == [epoch |-> e, major |-> ma, minor |-> mi, patch |-> pa, pre |-> [l |-> l, n |-> n], post |-> po, dev |-> d]
Unset == V(NONE, NONE, NONE, NONE, "none", NONE, NONE, NONE)
Starts == << V(NONE, 1, 2, 3, "none", NONE, NONE, NONE),
             V(7, 1, 2, 3, "rc", 4, 5, 6),
             V(NONE, 0, 0, 9, "alpha", NONE, NONE, NONE) >>
FullTier == [core |-> StandardCore, extra |-> ExtraTier(3), build |-> <<>>]
NoSchema == [kind |-> "preset", fam |-> "standard", suffix |-> "-base-prerelease-post-dev", sch |-> FullTier, order |-> DefaultOrder]
SrcNone == [v |-> Unset, ctx |-> NoCtx, sch |-> FullTier, hasSchema |-> FALSE, order |-> DefaultOrder]

\* ---- mode "names" ------------------------------------------------------------
OvVal(f) == CASE f = "epoch" -> 2 [] f = "major" -> 5 [] f = "minor" -> 6 [] f = "patch" -> 0
              [] f = "prenum" -> 8 [] f = "post" -> 3 [] f = "dev" -> 11
BpVal(f) == CASE f = "epoch" -> 1 [] f = "major" -> 1 [] f = "minor" -> 2 [] f = "patch" -> 1
              [] f = "prenum" -> 3 [] f = "post" -> 1 [] f = "dev" -> 4
NamesArgs ==
  { [ src |-> SrcNone, hasTag |-> TRUE, tag |-> Starts[s],
      ov |-> ( [f \in {Fields[i] : i \in 1..7} |-> IF ch[f] \in {1, 3} THEN OvVal(f) ELSE NONE]
               @@ [label |-> IF lab = 1 THEN "beta" ELSE ""] ),
      bp |-> ( [f \in {Fields[i] : i \in 1..7} |-> IF ch[f] \in {2, 3} THEN BpVal(f) ELSE NONE]
               @@ [label |-> IF lab = 2 THEN "rc" ELSE ""] ),
      ops |-> <<>>, vcs |-> NoVcs, schema |-> NoSchema ]
    : s \in 1..Len(Starts), lab \in 0..2, ch \in [{Fields[i] : i \in 1..7} -> OpChoices] }

\* ---- mode "index" ------------------------------------------------------------
Txt(str) == CASE str = "zz" -> <<122, 122>> [] str = "x" -> <<120>> [] str = "b" -> <<98>> [] str = "k" -> <<107>>
              [] str = "9" -> <<57>> [] str = "-4" -> <<45, 52>>
IdxSchema == [ core  |-> <<CVar("Major"), CVar("Minor"), CUInt(7), CVar("Patch"), CStr(Txt("x"))>>,
               extra |-> <<CVar("Epoch"), CVar("PreRelease"), CVar("Post"), CTs("YYYY"), CVar("Dev")>>,
               build |-> <<CVar("BumpedBranch"), CStr(Txt("b")), CUInt(3), CCustom(Txt("k"))>> ]
Vals == { [t |-> "num", n |-> 9, s |-> Txt("9")], [t |-> "num", n |-> 0, s |-> <<48>>], [t |-> "text", n |-> 0, s |-> Txt("zz")],
          [t |-> "neg", n |-> 0, s |-> Txt("-4")] }
OneOps == { [sec |-> sc, kind |-> kd, idx |-> ix, hasval |-> TRUE, val |-> vl]
              : sc \in {"core", "extra", "build"}, kd \in {"ov", "bump"}, ix \in {0, 1, 2, 3, 4, 5, -1, -2, -6}, vl \in Vals }
           \cup { [sec |-> sc, kind |-> kd, idx |-> ix, hasval |-> FALSE, val |-> NoVal]
              : sc \in {"core", "extra", "build"}, kd \in {"ov", "bump"}, ix \in {0, 1, 2, 3, 4, -1} }
\* second operation of a pair: a smaller set, enough to hit duplicates, the same index
\* with override+bump, two sections, and ordering by index
SecondOps == { o \in OneOps : o.idx \in {0, 2, -1} /\ (o.hasval => o.val.t = "num") }
NameCombos == { <<NoOv, NoOv>>,
                <<[NoOv EXCEPT !.minor = 6], [NoOv EXCEPT !.patch = 1]>>,
                <<[NoOv EXCEPT !.post = 3], [NoOv EXCEPT !.major = 1]>>,
                <<NoOv, [NoOv EXCEPT !.prenum = 3, !.dev = 4]>> }
IndexArgs ==
  { [ src |-> SrcNone, hasTag |-> TRUE, tag |-> Starts[2],
      ov |-> nc[1], bp |-> nc[2], ops |-> os, vcs |-> NoVcs,
      schema |-> [kind |-> "ron", fam |-> "", suffix |-> "", sch |-> IdxSchema, order |-> DefaultOrder] ]
    : nc \in NameCombos,
      os \in { <<o>> : o \in OneOps } \cup { <<o1, o2>> : o1 \in OneOps, o2 \in SecondOps } }

\* ---- mode "vcs" --------------------------------------------------------------
VcsChoices ==
  { [distance |-> d, dirty |-> di, nodirty |-> nd, clean |-> cl, branch |-> br, hash |-> NONE, ts |-> tsv, nbc |-> nb, bc |-> bcx]
    : d \in {NONE, 0, 3}, di \in BOOLEAN, nd \in BOOLEAN, cl \in BOOLEAN, br \in {NONE, 1}, tsv \in {NONE, 1700000000},
      nb \in BOOLEAN, bcx \in BOOLEAN }
VcsArgs ==
  { [ src |-> SrcNone, hasTag |-> TRUE, tag |-> Starts[s], ov |-> NoOv,
      bp |-> IF bpx THEN [NoOv EXCEPT !.patch = 1] ELSE NoOv, ops |-> <<>>, vcs |-> vc,
      schema |-> [kind |-> "preset", fam |-> fam, suffix |-> sfx, sch |-> FullTier, order |-> DefaultOrder] ]
    : s \in {1, 2, 3}, bpx \in BOOLEAN, vc \in VcsChoices, fam \in {"standard", "calver"}, sfx \in {"", "-no-context", "-context", "-base-prerelease"} }

\* ---- mode "order": custom precedence orders (permutations, some with levels left out, the empty one) ----
Orders == << DefaultOrder,
             <<"Build", "ExtraCore", "Dev", "Post", "PreReleaseNum", "PreReleaseLabel", "Core", "Patch", "Minor", "Major", "Epoch">>,
             <<"Major", "Minor", "Patch", "Epoch", "Post", "Dev", "PreReleaseLabel", "PreReleaseNum", "Core", "ExtraCore", "Build">>,
             <<"Patch", "Major", "Core", "PreReleaseNum", "Dev">>,
             <<>>,                       \* an explicitly empty order: no level is processed at all
             <<"Minor">> >>
OrderArgs ==
  { [ src |-> SrcNone, hasTag |-> TRUE, tag |-> Starts[s],
      ov |-> ( [f \in {Fields[i] : i \in 1..7} |-> IF ch[f] = 1 THEN OvVal(f) ELSE NONE] @@ [label |-> ""] ),
      bp |-> ( [f \in {Fields[i] : i \in 1..7} |-> IF ch[f] = 2 THEN BpVal(f) ELSE NONE] @@ [label |-> IF lab = 2 THEN "rc" ELSE ""] ),
      ops |-> os, vcs |-> NoVcs,
      schema |-> [kind |-> "ron", fam |-> "", suffix |-> "", sch |-> FullTier, order |-> Orders[o]] ]
    : s \in {1, 2}, lab \in {0, 2}, ch \in [{Fields[i] : i \in 1..7} -> {0, 2}], o \in 1..Len(Orders),
      os \in { <<>>, <<[sec |-> "core", kind |-> "bump", idx |-> 0, hasval |-> FALSE, val |-> NoVal]>>,
                    <<[sec |-> "extra", kind |-> "bump", idx |-> 2, hasval |-> TRUE, val |-> [t |-> "num", n |-> 9, s |-> <<57>>]]>> } }
\* ---- mode "tmpl": flag values that are templates over the pre-bump snapshot ----
RefVals == {NONE, 4, -10, -11, -12, -13, -14}
TmplArgs ==
  { [ src |-> SrcNone, hasTag |-> TRUE, tag |-> Starts[s],
      ov |-> [NoOv EXCEPT !.major = x1, !.post = x2], bp |-> [NoOv EXCEPT !.patch = x3, !.minor = x4, !.dev = x5],
      ops |-> <<>>, vcs |-> [NoVcs EXCEPT !.distance = d], schema |-> NoSchema ]
    : s \in {1, 2}, x1 \in RefVals, x2 \in RefVals, x3 \in RefVals, x4 \in {NONE, -13}, x5 \in {NONE, -14, -12}, d \in {NONE, 0, 3} }
\* ---- mode "tier": the smart-preset tier table of C06, exhaustively ----
AllSuffixes == {"", "-no-context", "-context", "-base", "-base-prerelease", "-base-prerelease-post", "-base-prerelease-post-dev",
                "-base-context", "-base-prerelease-context", "-base-prerelease-post-context", "-base-prerelease-post-dev-context"}
TierArgs ==
  { [ src |-> SrcNone, hasTag |-> TRUE, tag |-> V(NONE, 1, 2, 3, l, IF l = "none" THEN NONE ELSE 1, po, dv),
      ov |-> NoOv, bp |-> NoOv, ops |-> <<>>,
      vcs |-> [NoVcs EXCEPT !.distance = d, !.dirty = (di = 1), !.nodirty = (di = 0), !.branch = 1, !.hash = 1],
      schema |-> [kind |-> "preset", fam |-> fam, suffix |-> sfx, sch |-> FullTier, order |-> DefaultOrder] ]
    \* a dev number in the tag is NOT an input of the tier choice (it is printed only by tiers that have a dev component)
    : l \in {"none", "rc"}, po \in {NONE, 0, 2}, dv \in {NONE, 7}, d \in {NONE, 0, 3}, di \in {NONE, 0, 1}, fam \in {"standard", "calver"}, sfx \in AllSuffixes }
ArgSpace == CASE Mode = "tier" -> TierArgs [] Mode = "tmpl" -> TmplArgs [] Mode = "names" -> NamesArgs [] Mode = "index" -> IndexArgs [] Mode = "vcs" -> VcsArgs [] Mode = "order" -> OrderArgs

Init == \E args \in ArgSpace : InitWith(args)
Spec == Init /\ [][Next]_vars

\* ---- the closed-form law of C05 (by-name flags, default order) ----------------
LevelOfField(f) == CASE f = "epoch" -> "Epoch" [] f = "major" -> "Major" [] f = "minor" -> "Minor" [] f = "patch" -> "Patch"
                     [] f = "label" -> "PreReleaseLabel" [] f = "prenum" -> "PreReleaseNum" [] f = "post" -> "Post" [] f = "dev" -> "Dev"
Bumped(f) == IF f = "label" THEN a.bp.label # "" ELSE a.bp[f] # NONE
HigherBumped(f) == \E g \in {"epoch", "major", "minor", "patch", "label", "prenum", "post", "dev"} :
                      Bumped(g) /\ LevelIndex(Order, LevelOfField(g)) < LevelIndex(Order, LevelOfField(f))
Start == IF a.hasTag THEN a.tag ELSE a.src.v
LawNum(f, resetTo) ==
  LET base == IF a.ov[f] # NONE THEN a.ov[f] ELSE IF HigherBumped(f) THEN resetTo ELSE Start[f]
  IN IF a.bp[f] # NONE THEN Or0(base) + a.bp[f] ELSE base
LawPre ==
  LET p0 == IF HigherBumped("label") THEN NoPre ELSE Start.pre
      p1 == IF a.ov.label # "" THEN [l |-> a.ov.label, n |-> IF a.ov.prenum # NONE THEN a.ov.prenum
                                                             ELSE IF p0.l # "none" /\ p0.n # NONE THEN p0.n ELSE 0]
            ELSE IF a.bp.label # "" THEN [l |-> a.bp.label, n |-> 0] ELSE p0
      p2 == IF a.ov.prenum = NONE THEN p1 ELSE [l |-> IF p1.l = "none" THEN "alpha" ELSE p1.l, n |-> a.ov.prenum]
  IN IF a.bp.prenum = NONE THEN p2
     ELSE IF p2.l = "none" THEN [l |-> "alpha", n |-> a.bp.prenum] ELSE [l |-> p2.l, n |-> Or0(p2.n) + a.bp.prenum]
LawEpoch == LET e == LawNum("epoch", 0) IN IF e = 0 THEN NONE ELSE e
ClosedFormLaw ==
  (pc = "done" /\ a.ops = <<>> /\ Order = DefaultOrder /\ ra = [ov |-> a.ov, bp |-> a.bp]) =>
     /\ v.epoch = LawEpoch
     /\ v.major = LawNum("major", 0) /\ v.minor = LawNum("minor", 0) /\ v.patch = LawNum("patch", 0)
     /\ v.pre = LawPre
     /\ v.post = LawNum("post", NONE) /\ v.dev = LawNum("dev", NONE)
\* an invalid target produces no result at all
ErrorsAreFinal == pc = "error" => err
\* every schema the machine ends with satisfies the placement rules (C12)
SchemaStaysValid == pc \in {"walk", "section", "stamp", "normalize", "done"} => ValidSchema(sch)
\* index-addressed = by-name at the section's level: the same ProcNum / ProcPreNum operators are
\* used by both (ApplySpec dispatches to them), checked here on the observable result
TierOnlyFromState ==
  (pc = "walk" /\ li = 1 /\ a.schema.kind = "preset") =>
     sch = PresetSchema(a.schema.fam, a.schema.suffix, ctx.dirty, ctx.distance, v.pre.l # "none", v.post # NONE)

\* ---- the whole command: final state rendered (ZervModel ; Render) -----------------
\* concrete texts of the context tokens (the harness uses the same table)
TokBranch(tk) == IF tk = 1 THEN <<109,97,105,110>> ELSE <<102,101,97,116,117,114,101,47,120,45,49>>     \* main, feature/x-1
TokHash == <<97,49,98,50,99,51,100,52,101,53,102,54,48,55,49,56,50,57,51,97,52,98,53,99,54,100,55,101,56,102,57,48,49,50,51,52,53,54,55,56>>
\* 1700000000 = 2023-11-14 22:13:20 UTC, a Tuesday, day 19675 since the epoch, 318th day of the year
I1700 == [c |-> [day |-> 19675, y |-> 2023, m |-> 11, d |-> 14, wd |-> 1, yd |-> 318], sod |-> 80000]
T1700 == <<49,55,48,48,48,48,48,48,48,48>>
NoT == [s |-> 0, v |-> <<>>]
St == [ v |-> v, distance |-> ctx.distance, dirty |-> ctx.dirty,
        branch |-> IF ctx.branch = NONE THEN NoT ELSE [s |-> 1, v |-> TokBranch(ctx.branch)],
        hash |-> IF ctx.hash = NONE THEN NoT ELSE [s |-> 1, v |-> TokHash],
        custom |-> <<>>,
        bts |-> IF ctx.ts = 1700000000 THEN I1700 ELSE R!NoInstant,
        btsText |-> IF ctx.ts = 1700000000 THEN [s |-> 1, v |-> T1700] ELSE NoT,
        lts |-> R!NoInstant, ltsText |-> NoT, lbranch |-> NoT, lhash |-> NoT ]
\* the wall clock (a dirty work tree re-stamps the bumped timestamp) makes date components unpredictable
UsesClock == ctx.ts = -2 /\ \E sec \in {"core", "extra", "build"} : \E i \in 1..Len(sch[sec]) :
                sch[sec][i].t = "ts" \/ (sch[sec][i].t = "var" /\ sch[sec][i].v = "BumpedTimestamp")
FinalSemVer == IF pc = "done" /\ ~UsesClock THEN R!RenderSemVer(sch, St) ELSE <<>>
FinalPep440 == IF pc = "done" /\ ~UsesClock THEN R!RenderPep440(sch, St) ELSE <<>>
EmitLine ==
  (Emit /\ Done) => PrintT("REPLAY " \o ToJson([ a |-> a, err |-> err, v |-> v, ctx |-> ctx, sch |-> sch,
                                                 clock |-> (pc = "done" /\ UsesClock), semver |-> FinalSemVer, pep440 |-> FinalPep440 ]))
ActionProps == [][HigherLevelsUnchanged /\ WalkKeepsContext]_vars
=============================================================================
