SPECIFICATION Spec
CONSTANTS
  Alphabet = {97, 66, 48, 49, 46, 45, 95, 32, 233}
  MaxLen = 4
  Emit = FALSE
INVARIANTS MachineMeetsContract UIntOk EmitLine
CHECK_DEADLOCK FALSE
