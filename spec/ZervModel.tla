------------------------------- MODULE ZervModel -------------------------------
(* `zerv version` as a state machine (src/cli/version, src/version/zerv/vars.rs,   *)
(* src/version/zerv/bump):                                                         *)
(*   Validate ; ApplyVcsOverrides ; ApplyClean ; ApplyTagVersion ; ApplyContext ;  *)
(*   ChooseSchema ; for each level of the precedence order: Override, Bump,        *)
(*   ResetLower (section levels: one step per index-addressed operation) ;          *)
(*   BumpedTimestamp ; Normalize.                                                  *)
(* Numbers are TLC integers, NONE = -1 is "unset".  The arguments `a` are chosen   *)
(* in Init and never change; everything after Init is deterministic.               *)
EXTENDS Schema, TLC

NONE == -1
DefaultOrder == <<"Epoch", "Major", "Minor", "Patch", "Core", "PreReleaseLabel", "PreReleaseNum",
                  "Post", "Dev", "ExtraCore", "Build">>
NoPre == [l |-> "none", n |-> NONE]
Labels == {"alpha", "beta", "rc"}

LevelIndex(order, lv) == CHOOSE i \in 1..Len(order) : order[i] = lv

\* ------------------------------------------------------------------- resets --
ResetOne(v, lv) ==
  CASE lv = "Epoch" -> [v EXCEPT !.epoch = 0]
    [] lv = "Major" -> [v EXCEPT !.major = 0]
    [] lv = "Minor" -> [v EXCEPT !.minor = 0]
    [] lv = "Patch" -> [v EXCEPT !.patch = 0]
    [] lv = "PreReleaseLabel" -> [v EXCEPT !.pre = NoPre]
    [] lv = "PreReleaseNum" -> IF v.pre.l # "none" THEN [v EXCEPT !.pre.n = 0] ELSE v
    [] lv = "Post" -> [v EXCEPT !.post = NONE]
    [] lv = "Dev" -> [v EXCEPT !.dev = NONE]
    [] OTHER -> v                      \* section levels: literal components are never reset
RECURSIVE ResetFrom(_, _, _)
ResetFrom(v, order, i) == IF i > Len(order) THEN v ELSE ResetFrom(ResetOne(v, order[i]), order, i + 1)
\* reset every level strictly lower than lv
ResetLower(v, order, lv) == ResetFrom(v, order, LevelIndex(order, lv) + 1)

\* --------------------------------------------------------------- level steps --
Or0(x) == IF x = NONE THEN 0 ELSE x
FieldOf(lv) == CASE lv = "Epoch" -> "epoch" [] lv = "Major" -> "major" [] lv = "Minor" -> "minor"
                 [] lv = "Patch" -> "patch" [] lv = "Post" -> "post" [] lv = "Dev" -> "dev"
\* a numeric level: override sets absolutely, bump adds and resets every lower level
ProcNum(v, order, lv, ov, bp) ==
  LET f  == FieldOf(lv)
      v1 == IF ov # NONE THEN [v EXCEPT ![f] = ov] ELSE v
  IN  IF bp # NONE THEN ResetLower([v1 EXCEPT ![f] = Or0(v1[f]) + bp], order, lv) ELSE v1
\* pre-release number: creates an alpha pre-release when there is none
ProcPreNum(v, order, ov, bp) ==
  LET v1 == IF ov = NONE THEN v
            ELSE IF v.pre.l = "none" THEN [v EXCEPT !.pre = [l |-> "alpha", n |-> ov]]
            ELSE [v EXCEPT !.pre.n = ov]
  IN  IF bp = NONE THEN v1
      ELSE IF v1.pre.l # "none" THEN ResetLower([v1 EXCEPT !.pre.n = Or0(v1.pre.n) + bp], order, "PreReleaseNum")
      ELSE ResetLower([v1 EXCEPT !.pre = [l |-> "alpha", n |-> bp]], order, "PreReleaseNum")
\* pre-release label: override keeps (or creates) the number, bump resets and sets number 0
ProcLabel(v, order, ovLabel, ovNum, bpLabel) ==
  LET v1 == IF ovLabel = "" THEN v
            ELSE [v EXCEPT !.pre = [l |-> ovLabel,
                                    n |-> IF ovNum # NONE THEN ovNum
                                          ELSE IF v.pre.l # "none" /\ v.pre.n # NONE THEN v.pre.n ELSE 0]]
  IN  IF bpLabel = "" THEN v1
      ELSE [ResetLower(v1, order, "PreReleaseLabel") EXCEPT !.pre = [l |-> bpLabel, n |-> 0]]

ProcByName(v, order, lv, a) ==
  CASE lv \in {"Epoch", "Major", "Minor", "Patch", "Post", "Dev"} ->
         ProcNum(v, order, lv, a.ov[FieldOf(lv)], a.bp[FieldOf(lv)])
    [] lv = "PreReleaseLabel" -> ProcLabel(v, order, a.ov.label, a.ov.prenum, a.bp.label)
    [] lv = "PreReleaseNum"   -> ProcPreNum(v, order, a.ov.prenum, a.bp.prenum)

\* ------------------------------------------------ index-addressed operations --
\* op = [sec, kind ("ov" | "bump"), idx (may be negative), hasval, val]
\* val = [t ("num" | "text" | "neg"), n, s]   (s = the text as written)
SecOf(lv) == CASE lv = "Core" -> "core" [] lv = "ExtraCore" -> "extra" [] lv = "Build" -> "build"
One == [t |-> "num", n |-> 1, s |-> <<49>>]
NoVal == [t |-> "none", n |-> 0, s |-> <<>>]
NormIdx(idx, len) == IF idx >= 0 THEN (IF idx < len THEN idx ELSE NONE)
                     ELSE (IF len + idx >= 0 THEN len + idx ELSE NONE)
OpsOf(a, sec, kind) == SelectSeq(a.ops, LAMBDA o : o.sec = sec /\ o.kind = kind)
\* parse-and-validate of one section: "error" or the specs sorted by index
SpecsOrError(a, sec, len) ==
  LET ovs == OpsOf(a, sec, "ov")   bps == OpsOf(a, sec, "bump")
      bad(o) == \/ NormIdx(o.idx, len) = NONE
                \/ (o.kind = "ov" /\ ~o.hasval)
                \/ (o.hasval /\ o.val.t = "neg")
      dup(os) == \E i, j \in 1..Len(os) : i < j /\ NormIdx(os[i].idx, len) = NormIdx(os[j].idx, len)
  IN  IF (\E i \in 1..Len(ovs) : bad(ovs[i])) \/ (\E i \in 1..Len(bps) : bad(bps[i])) \/ dup(ovs) \/ dup(bps)
      THEN [err |-> TRUE, specs |-> <<>>]
      ELSE LET idxs == { NormIdx(ovs[i].idx, len) : i \in 1..Len(ovs) } \cup { NormIdx(bps[i].idx, len) : i \in 1..Len(bps) }
               ovAt(x) == IF \E i \in 1..Len(ovs) : NormIdx(ovs[i].idx, len) = x
                          THEN ovs[CHOOSE i \in 1..Len(ovs) : NormIdx(ovs[i].idx, len) = x].val ELSE NoVal
               bpAt(x) == IF \E i \in 1..Len(bps) : NormIdx(bps[i].idx, len) = x
                          THEN LET o == bps[CHOOSE i \in 1..Len(bps) : NormIdx(bps[i].idx, len) = x]
                               IN IF o.hasval THEN o.val ELSE One
                          ELSE NoVal
               RECURSIVE Sorted(_)
               Sorted(S) == IF S = {} THEN <<>>
                            ELSE LET m == CHOOSE x \in S : \A y \in S : x <= y
                                 IN <<[i |-> m, ov |-> ovAt(m), bp |-> bpAt(m)]>> \o Sorted(S \ {m})
           IN [err |-> FALSE, specs |-> Sorted(idxs)]

NumOf(val) == IF val.t = "none" THEN NONE ELSE val.n
NumericOk(val) == val.t \in {"none", "num"}
VarLevel(name) == CASE name = "Major" -> "Major" [] name = "Minor" -> "Minor" [] name = "Patch" -> "Patch"
                    [] name = "Epoch" -> "Epoch" [] name = "Post" -> "Post" [] name = "Dev" -> "Dev"
\* apply one spec to the component at 0-based index spec.i of section sec;
\* result [err, v, sch]
ApplySpec(v, sch, order, sec, spec) ==
  LET c == sch[sec][spec.i + 1] IN
  IF c.t \in {"ts", "custom"} \/ (c.t = "var" /\ c.v \in ContextVars)
  THEN [err |-> TRUE, v |-> v, sch |-> sch]
  ELSE IF c.t = "var"
  THEN IF ~NumericOk(spec.ov) \/ ~NumericOk(spec.bp) THEN [err |-> TRUE, v |-> v, sch |-> sch]
       ELSE [err |-> FALSE, sch |-> sch,
             v |-> IF c.v = "PreRelease" THEN ProcPreNum(v, order, NumOf(spec.ov), NumOf(spec.bp))
                   ELSE ProcNum(v, order, VarLevel(c.v), NumOf(spec.ov), NumOf(spec.bp))]
  ELSE IF c.t = "uint"
  THEN IF ~NumericOk(spec.ov) \/ ~NumericOk(spec.bp) THEN [err |-> TRUE, v |-> v, sch |-> sch]
       ELSE [err |-> FALSE, v |-> v,
             sch |-> [sch EXCEPT ![sec][spec.i + 1].n =
                        (IF spec.ov.t = "num" THEN spec.ov.n ELSE c.n) + (IF spec.bp.t = "num" THEN spec.bp.n ELSE 0)]]
  ELSE \* a str literal: override replaces, "bump" replaces as well
       [err |-> FALSE, v |-> v,
        sch |-> [sch EXCEPT ![sec][spec.i + 1].s =
                   IF spec.bp.t # "none" THEN spec.bp.s ELSE IF spec.ov.t # "none" THEN spec.ov.s ELSE c.s]]

\* ------------------------------------------------------- argument validation --
\* conflicts detected before anything is computed (src/cli/version/args/validation.rs)
ArgsConflict(a) ==
  \/ a.vcs.dirty /\ a.vcs.nodirty
  \/ a.vcs.clean /\ (a.vcs.distance # NONE \/ a.vcs.dirty \/ a.vcs.nodirty)
  \/ a.vcs.bc /\ a.vcs.nbc
  \/ a.vcs.nbc /\ a.vcs.dirty
  \/ a.ov.label # "" /\ a.bp.label # ""

\* ------------------------------------------------------------ the machine ---
VARIABLES a, v, ctx, sch, pc, li, k, specs, err
vars == <<a, v, ctx, sch, pc, li, k, specs, err>>

\* ctx = VCS context: [distance, dirty (NONE | 0 | 1), branch, hash, ts] as opaque tokens / numbers
InitWith(args) ==
  /\ a = args /\ v = args.src.v /\ ctx = args.src.ctx /\ sch = args.src.sch
  /\ pc = "validate" /\ li = 0 /\ k = 0 /\ specs = <<>> /\ err = FALSE

Fail == pc' = "error" /\ err' = TRUE /\ UNCHANGED <<a, v, ctx, sch, li, k, specs>>

Validate == /\ pc = "validate"
            /\ IF ArgsConflict(a) THEN Fail
               ELSE pc' = "vcs" /\ UNCHANGED <<a, v, ctx, sch, li, k, specs, err>>
ApplyVcsOverrides ==
  /\ pc = "vcs"
  /\ ctx' = [ctx EXCEPT !.distance = IF a.vcs.distance # NONE THEN a.vcs.distance ELSE @,
                        !.dirty = IF a.vcs.dirty THEN 1 ELSE IF a.vcs.nodirty THEN 0 ELSE @,
                        !.branch = IF a.vcs.branch # NONE THEN a.vcs.branch ELSE @,
                        !.hash = IF a.vcs.hash # NONE THEN a.vcs.hash ELSE @,
                        !.ts = IF a.vcs.ts # NONE THEN a.vcs.ts ELSE @]
  /\ pc' = "clean" /\ UNCHANGED <<a, v, sch, li, k, specs, err>>
ApplyClean ==
  /\ pc = "clean"
  /\ ctx' = IF a.vcs.clean THEN [ctx EXCEPT !.distance = NONE, !.dirty = 0] ELSE ctx
  /\ pc' = "tag" /\ UNCHANGED <<a, v, sch, li, k, specs, err>>
\* --tag-version replaces the seven version variables (the tag text is parsed by
\* the grammar modules; here a.tag is the parsed value or NoTag)
ApplyTagVersion ==
  /\ pc = "tag"
  /\ v' = IF a.hasTag THEN a.tag ELSE v
  /\ pc' = "context" /\ UNCHANGED <<a, ctx, sch, li, k, specs, err>>
ApplyContextControl ==
  /\ pc = "context"
  /\ ctx' = IF a.vcs.nbc THEN [ctx EXCEPT !.distance = 0, !.dirty = 0, !.branch = NONE, !.hash = NONE, !.ts = NONE] ELSE ctx
  /\ pc' = "schema" /\ UNCHANGED <<a, v, sch, li, k, specs, err>>
\* schema in effect: --schema-ron | --schema preset | the source's schema | standard
ChooseSchema ==
  /\ pc = "schema"
  /\ LET hasPre == v.pre.l # "none"   hasPost == v.post # NONE
         chosen == IF a.schema.kind = "ron" THEN a.schema.sch
                   ELSE IF a.schema.kind = "preset"
                        THEN PresetSchema(a.schema.fam, a.schema.suffix, ctx.dirty, ctx.distance, hasPre, hasPost)
                   ELSE IF a.src.hasSchema THEN sch
                   ELSE PresetSchema("standard", "", ctx.dirty, ctx.distance, hasPre, hasPost)
     IN IF ~ValidSchema(chosen) THEN Fail
        ELSE /\ sch' = chosen /\ pc' = "walk" /\ li' = 1
             /\ UNCHANGED <<a, v, ctx, k, specs, err>>

Order == DefaultOrder
Level == Order[li]
IsSection(lv) == lv \in {"Core", "ExtraCore", "Build"}
Advance == IF li = Len(Order) THEN pc' = "stamp" /\ li' = li ELSE pc' = "walk" /\ li' = li + 1

\* one by-name level: override, bump, reset lower
ProcLevel ==
  /\ pc = "walk" /\ ~IsSection(Level)
  /\ v' = ProcByName(v, Order, Level, a)
  /\ Advance /\ UNCHANGED <<a, ctx, sch, k, specs, err>>
\* a section level: parse and validate its operations ...
EnterSection ==
  /\ pc = "walk" /\ IsSection(Level)
  /\ LET r == SpecsOrError(a, SecOf(Level), Len(sch[SecOf(Level)])) IN
     IF r.err THEN Fail
     ELSE /\ specs' = r.specs /\ k' = 1 /\ pc' = "section"
          /\ UNCHANGED <<a, v, ctx, sch, li, err>>
\* ... then apply them from the lowest index to the highest, one step each
SectionOp ==
  /\ pc = "section" /\ k <= Len(specs)
  /\ LET r == ApplySpec(v, sch, Order, SecOf(Level), specs[k]) IN
     IF r.err THEN Fail
     ELSE /\ v' = r.v /\ sch' = r.sch /\ k' = k + 1
          /\ UNCHANGED <<a, ctx, pc, li, specs, err>>
LeaveSection ==
  /\ pc = "section" /\ k > Len(specs)
  /\ Advance /\ k' = 0 /\ specs' = <<>> /\ UNCHANGED <<a, v, ctx, sch, err>>
\* a dirty work tree re-stamps the bumped timestamp with the wall clock ("now" token)
BumpedTimestamp ==
  /\ pc = "stamp"
  /\ ctx' = IF ctx.dirty = 1 THEN [ctx EXCEPT !.ts = -2] ELSE ctx       \* -2 = the wall clock
  /\ pc' = "normalize" /\ UNCHANGED <<a, v, sch, li, k, specs, err>>
Normalize ==
  /\ pc = "normalize"
  /\ v' = IF v.epoch = 0 THEN [v EXCEPT !.epoch = NONE] ELSE v
  /\ pc' = "done" /\ UNCHANGED <<a, ctx, sch, li, k, specs, err>>

Next == \/ Validate \/ ApplyVcsOverrides \/ ApplyClean \/ ApplyTagVersion \/ ApplyContextControl
        \/ ChooseSchema \/ ProcLevel \/ EnterSection \/ SectionOp \/ LeaveSection
        \/ BumpedTimestamp \/ Normalize
Done == pc \in {"done", "error"}

\* ---------------------------------------------------------------- properties --
\* rank of each version variable in the precedence order
RankOfVar(name) == CASE name = "epoch" -> LevelIndex(Order, "Epoch") [] name = "major" -> LevelIndex(Order, "Major")
                     [] name = "minor" -> LevelIndex(Order, "Minor") [] name = "patch" -> LevelIndex(Order, "Patch")
                     [] name = "label" -> LevelIndex(Order, "PreReleaseLabel") [] name = "prenum" -> LevelIndex(Order, "PreReleaseNum")
                     [] name = "post" -> LevelIndex(Order, "Post") [] name = "dev" -> LevelIndex(Order, "Dev")
Proj(x, name) == CASE name = "label" -> x.pre.l [] name = "prenum" -> x.pre.n [] OTHER -> x[name]
VarNames == {"epoch", "major", "minor", "patch", "label", "prenum", "post", "dev"}
\* the level at which the current step operates: the by-name level, or the level of the
\* variable addressed by the index operation (its literal's section level otherwise)
StepRank ==
  IF pc = "walk" /\ ~IsSection(Level) THEN li
  ELSE IF pc = "section" /\ k <= Len(specs)
       THEN LET c == sch[SecOf(Level)][specs[k].i + 1] IN
            IF c.t = "var" /\ c.v \in {"Major", "Minor", "Patch", "Epoch", "Post", "Dev"} THEN LevelIndex(Order, VarLevel(c.v))
            ELSE IF c.t = "var" /\ c.v = "PreRelease" THEN LevelIndex(Order, "PreReleaseNum")
            ELSE li
       ELSE 0
\* no operation ever changes a level above its own.  (One documented exception is
\* built into the pre-release number: creating the pre-release sets the label too.)
HigherLevelsUnchanged ==
  (pc \in {"walk", "section"} /\ StepRank > 0) =>
     \A name \in VarNames :
        (RankOfVar(name) < StepRank /\ ~(name = "label" /\ v.pre.l = "none")) => Proj(v', name) = Proj(v, name)
\* the walk never touches the VCS context, and literals are never reset
WalkKeepsContext == pc \in {"walk", "section"} => ctx' = ctx
=============================================================================
