------------------------------- MODULE ZervModel -------------------------------
(* `zerv version` as a state machine (src/cli/version, src/version/zerv/vars.rs,   *)
(* src/version/zerv/bump):                                                         *)
(*   Validate ; ApplyVcsOverrides ; ApplyClean ; ApplyTagVersion ; ApplyContext ;  *)
(*   ChooseSchema ; for each level of the precedence order: Override, Bump,        *)
(*   ResetLower (section levels: one step per index-addressed operation) ;          *)
(*   BumpedTimestamp ; Normalize.                                                  *)
(* The arguments `a` are chosen in Init and never change; everything after Init is *)
(* deterministic.  The operators are in ZervOps.                                   *)
EXTENDS ZervOps

\* ------------------------------------------------------------ the machine ---
VARIABLES a, ra, v, ctx, sch, pc, li, k, specs, err
vars == <<a, ra, v, ctx, sch, pc, li, k, specs, err>>

\* the precedence order is part of the schema in effect: a preset has the default one, a
\* --schema-ron or stdin schema may carry its own (a level that is left out is never processed)
Order == IF a.schema.kind = "ron" THEN a.schema.order
         ELSE IF a.schema.kind = "preset" THEN DefaultOrder
         ELSE IF a.src.hasSchema THEN a.src.order ELSE DefaultOrder

\* ctx = VCS context: [distance, dirty (NONE | 0 | 1), branch, hash, ts] as opaque tokens / numbers
InitWith(args) ==
  /\ a = args /\ ra = [ov |-> args.ov, bp |-> args.bp] /\ v = args.src.v /\ ctx = args.src.ctx /\ sch = args.src.sch
  /\ pc = "validate" /\ li = 0 /\ k = 0 /\ specs = <<>> /\ err = FALSE

Fail == pc' = "error" /\ err' = TRUE /\ UNCHANGED <<a, ra, v, ctx, sch, li, k, specs>>

Validate == /\ pc = "validate"
            /\ IF ArgsConflict(a) THEN Fail
               ELSE pc' = "vcs" /\ UNCHANGED <<a, ra, v, ctx, sch, li, k, specs, err>>
ApplyVcsOverrides ==
  /\ pc = "vcs"
  /\ ctx' = [ctx EXCEPT !.distance = IF a.vcs.distance # NONE THEN a.vcs.distance ELSE @,
                        !.dirty = IF a.vcs.dirty THEN 1 ELSE IF a.vcs.nodirty THEN 0 ELSE @,
                        !.branch = IF a.vcs.branch # NONE THEN a.vcs.branch ELSE @,
                        !.hash = IF a.vcs.hash # NONE THEN a.vcs.hash ELSE @,
                        !.ts = IF a.vcs.ts # NONE THEN a.vcs.ts ELSE @]
  /\ pc' = "clean" /\ UNCHANGED <<a, ra, v, sch, li, k, specs, err>>
ApplyClean ==
  /\ pc = "clean"
  /\ ctx' = IF a.vcs.clean THEN [ctx EXCEPT !.distance = NONE, !.dirty = 0] ELSE ctx
  /\ pc' = "tag" /\ UNCHANGED <<a, ra, v, sch, li, k, specs, err>>
\* --tag-version replaces the seven version variables (the tag text is parsed by
\* the grammar modules; here a.tag is the parsed value or NoTag)
ApplyTagVersion ==
  /\ pc = "tag"
  /\ v' = IF a.hasTag THEN a.tag ELSE v
  /\ pc' = "context" /\ UNCHANGED <<a, ra, ctx, sch, li, k, specs, err>>
ApplyContextControl ==
  /\ pc = "context"
  /\ ctx' = IF a.vcs.nbc THEN [ctx EXCEPT !.distance = 0, !.dirty = 0, !.branch = NONE, !.hash = NONE, !.ts = NONE] ELSE ctx
  /\ pc' = "schema" /\ UNCHANGED <<a, ra, v, sch, li, k, specs, err>>
\* schema in effect: --schema-ron | --schema preset | the source's schema | standard
ChooseSchema ==
  /\ pc = "schema"
  /\ LET hasPre == v.pre.l # "none"   hasPost == v.post # NONE
         chosen == IF a.schema.kind = "ron" THEN a.schema.sch
                   ELSE IF a.schema.kind = "preset"
                        THEN PresetSchema(a.schema.fam, a.schema.suffix, ctx.dirty, ctx.distance, hasPre, hasPost)
                   ELSE IF a.src.hasSchema THEN sch
                   ELSE PresetSchema("standard", "", ctx.dirty, ctx.distance, hasPre, hasPost)
     IN IF ~ValidSchema(chosen) THEN Fail
        ELSE /\ sch' = chosen /\ li' = 1
             /\ pc' = IF Len(Order) = 0 THEN "stamp" ELSE "walk"
             \* flag values that are templates ({{ minor }}, {{ distance }}, ...) are resolved once, here,
             \* against the state before any bump (src/cli/version/args/resolved.rs)
             /\ ra' = [ov |-> ResolveAll(a.ov, v, ctx), bp |-> ResolveAll(a.bp, v, ctx)]
             /\ UNCHANGED <<a, v, ctx, k, specs, err>>

Level == Order[li]
IsSection(lv) == lv \in {"Core", "ExtraCore", "Build"}
Advance == IF li >= Len(Order) THEN pc' = "stamp" /\ li' = li ELSE pc' = "walk" /\ li' = li + 1

\* one by-name level: override, bump, reset lower
ProcLevel ==
  /\ pc = "walk" /\ ~IsSection(Level)
  /\ v' = ProcByName(v, Order, Level, ra)
  /\ Advance /\ UNCHANGED <<a, ra, ctx, sch, k, specs, err>>
\* a section level: parse and validate its operations ...
EnterSection ==
  /\ pc = "walk" /\ IsSection(Level)
  /\ LET r == SpecsOrError(a, SecOf(Level), Len(sch[SecOf(Level)])) IN
     IF r.err THEN Fail
     ELSE /\ specs' = r.specs /\ k' = 1 /\ pc' = "section"
          /\ UNCHANGED <<a, ra, v, ctx, sch, li, err>>
\* ... then apply them from the lowest index to the highest, one step each
SectionOp ==
  /\ pc = "section" /\ k <= Len(specs)
  /\ LET r == ApplySpec(v, sch, Order, SecOf(Level), specs[k]) IN
     IF r.err THEN Fail
     ELSE /\ v' = r.v /\ sch' = r.sch /\ k' = k + 1
          /\ UNCHANGED <<a, ra, ctx, pc, li, specs, err>>
LeaveSection ==
  /\ pc = "section" /\ k > Len(specs)
  /\ Advance /\ k' = 0 /\ specs' = <<>> /\ UNCHANGED <<a, ra, v, ctx, sch, err>>
\* a dirty work tree re-stamps the bumped timestamp with the wall clock ("now" token)
BumpedTimestamp ==
  /\ pc = "stamp"
  /\ ctx' = IF ctx.dirty = 1 THEN [ctx EXCEPT !.ts = -2] ELSE ctx       \* -2 = the wall clock
  /\ pc' = "normalize" /\ UNCHANGED <<a, ra, v, sch, li, k, specs, err>>
Normalize ==
  /\ pc = "normalize"
  /\ v' = IF v.epoch = 0 THEN [v EXCEPT !.epoch = NONE] ELSE v
  /\ pc' = "done" /\ UNCHANGED <<a, ra, ctx, sch, li, k, specs, err>>

Next == \/ Validate \/ ApplyVcsOverrides \/ ApplyClean \/ ApplyTagVersion \/ ApplyContextControl
        \/ ChooseSchema \/ ProcLevel \/ EnterSection \/ SectionOp \/ LeaveSection
        \/ BumpedTimestamp \/ Normalize
Done == pc \in {"done", "error"}

\* ---------------------------------------------------------------- properties --
\* rank of each version variable in the precedence order
RankOfVar(name) == CASE name = "epoch" -> LevelIndex(Order, "Epoch") [] name = "major" -> LevelIndex(Order, "Major")
                     [] name = "minor" -> LevelIndex(Order, "Minor") [] name = "patch" -> LevelIndex(Order, "Patch")
                     [] name = "label" -> LevelIndex(Order, "PreReleaseLabel") [] name = "prenum" -> LevelIndex(Order, "PreReleaseNum")
                     [] name = "post" -> LevelIndex(Order, "Post") [] name = "dev" -> LevelIndex(Order, "Dev")
Proj(x, name) == CASE name = "label" -> x.pre.l [] name = "prenum" -> x.pre.n [] OTHER -> x[name]
VarNames == {"epoch", "major", "minor", "patch", "label", "prenum", "post", "dev"}
\* the level at which the current step operates: the by-name level, or the level of the
\* variable addressed by the index operation (its literal's section level otherwise)
StepRank ==
  IF pc = "walk" /\ ~IsSection(Level) THEN li
  ELSE IF pc = "section" /\ k <= Len(specs)
       THEN LET c == sch[SecOf(Level)][specs[k].i + 1] IN
            IF c.t = "var" /\ c.v \in {"Major", "Minor", "Patch", "Epoch", "Post", "Dev"} THEN LevelIndex(Order, VarLevel(c.v))
            ELSE IF c.t = "var" /\ c.v = "PreRelease" THEN LevelIndex(Order, "PreReleaseNum")
            ELSE li
       ELSE 0
\* no operation ever changes a level above its own.  (One documented exception is
\* built into the pre-release number: creating the pre-release sets the label too.)
HigherLevelsUnchanged ==
  (IsPermutation(Order) /\ pc \in {"walk", "section"} /\ StepRank > 0) =>
     \A name \in VarNames :
        (RankOfVar(name) < StepRank /\ ~(name = "label" /\ v.pre.l = "none")
           \* the pre-release is one variable with two levels: a label operation always (re)sets its
           \* number, also under a custom order that ranks the number above the label
           /\ ~(name = "prenum" /\ pc = "walk" /\ Level = "PreReleaseLabel")) => Proj(v', name) = Proj(v, name)
\* the walk never touches the VCS context, and literals are never reset
WalkKeepsContext == pc \in {"walk", "section"} => ctx' = ctx
=============================================================================
