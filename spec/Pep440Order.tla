----------------------------- MODULE Pep440Order -----------------------------
(* The order C11 fixes, on values parsed by Pep440Grammar:                        *)
(*   epoch ; release padded with zeros ; pre-release phase a < b < rc < none and  *)
(*   number ; post (none lowest) ; dev (none highest) ; local (none lowest,       *)
(*   numeric parts by value and below alphabetic parts, shorter prefix lower).    *)
(* Implicit numbers count as 0.                                                   *)
EXTENDS Pep440Grammar

Val(t) == IF t = <<>> THEN <<ZERO>> ELSE StripZ(t)        \* canonical numeral text
NumTextCmp(a, b) == NumCmp(Val(a), Val(b))

RECURSIVE RelCmpFrom(_, _, _)
RelCmpFrom(r, q, i) ==
  IF i > Len(r) /\ i > Len(q) THEN 0
  ELSE LET x == IF i <= Len(r) THEN r[i] ELSE <<ZERO>>
           y == IF i <= Len(q) THEN q[i] ELSE <<ZERO>>
           c == NumTextCmp(x, y)
       IN IF c # 0 THEN c ELSE RelCmpFrom(r, q, i + 1)

Phase(pre) == IF pre = Absent THEN 4
              ELSE IF pre[1] = <<97>> THEN 1 ELSE IF pre[1] = <<98>> THEN 2 ELSE 3
IntCmp(a, b) == IF a < b THEN -1 ELSE IF a > b THEN 1 ELSE 0
PreCmp(p, q) == LET c == IntCmp(Phase(p), Phase(q)) IN
                IF c # 0 THEN c ELSE IF p = Absent THEN 0 ELSE NumTextCmp(p[2], q[2])
PostCmp(p, q) == IF p = Absent /\ q = Absent THEN 0 ELSE IF p = Absent THEN -1 ELSE IF q = Absent THEN 1
                 ELSE NumTextCmp(p[1], q[1])
DevCmp(p, q)  == IF p = Absent /\ q = Absent THEN 0 ELSE IF p = Absent THEN 1 ELSE IF q = Absent THEN -1
                 ELSE NumTextCmp(p[1], q[1])

LocalParts(t) == LET u == [i \in 1..Len(t) |-> IF t[i] \in SepChars THEN DOT ELSE LowerC(t[i])] IN Split(u, DOT)
PartCmp(a, b) == IF AllDigits(a) /\ AllDigits(b) THEN NumTextCmp(a, b)
                 ELSE IF AllDigits(a) THEN -1 ELSE IF AllDigits(b) THEN 1 ELSE LexCmp(a, b)
RECURSIVE PartsCmpFrom(_, _, _)
PartsCmpFrom(p, q, i) ==
  IF i > Len(p) /\ i > Len(q) THEN 0
  ELSE IF i > Len(p) THEN -1 ELSE IF i > Len(q) THEN 1
  ELSE LET c == PartCmp(p[i], q[i]) IN IF c # 0 THEN c ELSE PartsCmpFrom(p, q, i + 1)
LocalCmp(v, w) == IF ~v.hasLoc /\ ~w.hasLoc THEN 0 ELSE IF ~v.hasLoc THEN -1 ELSE IF ~w.hasLoc THEN 1
                  ELSE PartsCmpFrom(LocalParts(v.loc), LocalParts(w.loc), 1)

PepCmp(v, w) ==
  LET a == NumTextCmp(v.ep, w.ep) IN IF a # 0 THEN a ELSE
  LET b == RelCmpFrom(v.rel, w.rel, 1) IN IF b # 0 THEN b ELSE
  LET c == PreCmp(v.pre, w.pre) IN IF c # 0 THEN c ELSE
  LET d == PostCmp(v.post, w.post) IN IF d # 0 THEN d ELSE
  LET e == DevCmp(v.dev, w.dev) IN IF e # 0 THEN e ELSE LocalCmp(v, w)
=============================================================================
