---- MODULE Dbg_TTrace_1790688090 ----
EXTENDS Sequences, TLCExt, Toolbox, Dbg, Naturals, TLC

_expression ==
    LET Dbg_TEExpression == INSTANCE Dbg_TEExpression
    IN Dbg_TEExpression!expression
----

_trace ==
    LET Dbg_TETrace == INSTANCE Dbg_TETrace
    IN Dbg_TETrace!trace
----

_inv ==
    ~(
        TLCGet("level") = Len(_TETrace)
        /\
        f = ([filled |-> TRUE, tag |-> [post |-> 0, epoch |-> -1, major |-> 2, minor |-> 3, patch |-> 4, pre |-> [l |-> "rc", n |-> 1], dev |-> -1], post |-> -1, suffix |-> "", distance |-> -1, dirty |-> FALSE, clean |-> FALSE, nodirty |-> FALSE, label |-> "", num |-> -1, mode |-> "", hasBranch |-> FALSE, branch |-> <<>>, hlen |-> 5, rules |-> <<[pattern |-> <<100, 101, 118, 101, 108, 111, 112>>, label |-> "beta", num |-> 1, mode |-> "commit"], [pattern |-> <<114, 101, 108, 101, 97, 115, 101, 47, 42>>, label |-> "rc", num |-> -1, mode |-> "tag"], [pattern |-> <<42>>, label |-> "alpha", num |-> -1, mode |-> "commit"]>>, rsid |-> 1])
    )
----

_init ==
    /\ f = _TETrace[1].f
----

_next ==
    /\ \E i,j \in DOMAIN _TETrace:
        /\ \/ /\ j = i + 1
              /\ i = TLCGet("level")
        /\ f  = _TETrace[i].f
        /\ f' = _TETrace[j].f

\* Uncomment the ASSUME below to write the states of the error trace
\* to the given file in Json format. Note that you can pass any tuple
\* to `JsonSerialize`. For example, a sub-sequence of _TETrace.
    \* ASSUME
    \*     LET J == INSTANCE Json
    \*         IN J!JsonSerialize("Dbg_TTrace_1790688090.json", _TETrace)

=============================================================================

 Note that you can extract this module `Dbg_TEExpression`
  to a dedicated file to reuse `expression` (the module in the 
  dedicated `Dbg_TEExpression.tla` file takes precedence 
  over the module `Dbg_TEExpression` below).

---- MODULE Dbg_TEExpression ----
EXTENDS Sequences, TLCExt, Toolbox, Dbg, Naturals, TLC

expression == 
    [
        \* To hide variables of the `Dbg` spec from the error trace,
        \* remove the variables below.  The trace will be written in the order
        \* of the fields of this record.
        f |-> f
        
        \* Put additional constant-, state-, and action-level expressions here:
        \* ,_stateNumber |-> _TEPosition
        \* ,_fUnchanged |-> f = f'
        
        \* Format the `f` variable as Json value.
        \* ,_fJson |->
        \*     LET J == INSTANCE Json
        \*     IN J!ToJson(f)
        
        \* Lastly, you may build expressions over arbitrary sets of states by
        \* leveraging the _TETrace operator.  For example, this is how to
        \* count the number of times a spec variable changed up to the current
        \* state in the trace.
        \* ,_fModCount |->
        \*     LET F[s \in DOMAIN _TETrace] ==
        \*         IF s = 1 THEN 0
        \*         ELSE IF _TETrace[s].f # _TETrace[s-1].f
        \*             THEN 1 + F[s-1] ELSE F[s-1]
        \*     IN F[_TEPosition - 1]
    ]

=============================================================================



Parsing and semantic processing can take forever if the trace below is long.
 In this case, it is advised to uncomment the module below to deserialize the
 trace from a generated binary file.

\*
\*---- MODULE Dbg_TETrace ----
\*EXTENDS IOUtils, Dbg, TLC
\*
\*trace == IODeserialize("Dbg_TTrace_1790688090.bin", TRUE)
\*
\*=============================================================================
\*

---- MODULE Dbg_TETrace ----
EXTENDS Dbg, TLC

trace == 
    <<
    ([f |-> [filled |-> FALSE, tag |-> [post |-> 0, epoch |-> -1, major |-> 2, minor |-> 3, patch |-> 4, pre |-> [l |-> "rc", n |-> 1], dev |-> -1], post |-> -1, suffix |-> "", distance |-> -1, dirty |-> FALSE, clean |-> FALSE, nodirty |-> FALSE, label |-> "", num |-> -1, mode |-> "", hasBranch |-> FALSE, branch |-> <<>>, hlen |-> 5, rules |-> <<[pattern |-> <<100, 101, 118, 101, 108, 111, 112>>, label |-> "beta", num |-> 1, mode |-> "commit"], [pattern |-> <<114, 101, 108, 101, 97, 115, 101, 47, 42>>, label |-> "rc", num |-> -1, mode |-> "tag"], [pattern |-> <<42>>, label |-> "alpha", num |-> -1, mode |-> "commit"]>>, rsid |-> 1]]),
    ([f |-> [filled |-> TRUE, tag |-> [post |-> 0, epoch |-> -1, major |-> 2, minor |-> 3, patch |-> 4, pre |-> [l |-> "rc", n |-> 1], dev |-> -1], post |-> -1, suffix |-> "", distance |-> -1, dirty |-> FALSE, clean |-> FALSE, nodirty |-> FALSE, label |-> "", num |-> -1, mode |-> "", hasBranch |-> FALSE, branch |-> <<>>, hlen |-> 5, rules |-> <<[pattern |-> <<100, 101, 118, 101, 108, 111, 112>>, label |-> "beta", num |-> 1, mode |-> "commit"], [pattern |-> <<114, 101, 108, 101, 97, 115, 101, 47, 42>>, label |-> "rc", num |-> -1, mode |-> "tag"], [pattern |-> <<42>>, label |-> "alpha", num |-> -1, mode |-> "commit"]>>, rsid |-> 1]])
    >>
----


=============================================================================

---- CONFIG Dbg_TTrace_1790688090 ----
CONSTANTS
    Emit = FALSE
    Suffixes = { "" }
    RuleSets = { 1 }
    Big = FALSE
    HLens = { 5 }

INVARIANT
    _inv

CHECK_DEADLOCK
    \* CHECK_DEADLOCK off because of PROPERTY or INVARIANT above.
    FALSE

INIT
    _init

NEXT
    _next

CONSTANT
    _TETrace <- _trace

ALIAS
    _expression
=============================================================================
\* Generated on Tue Sep 29 13:21:32 UTC 2026