--------------------------------- MODULE PyApi ---------------------------------
(* The Python wrapper (python/zerv/__init__.py) as the property C18 states it:        *)
(* every keyword argument maps to an option of the sub-command, None / False add       *)
(* nothing, True adds the bare flag, any other value adds the flag and str(value).     *)
(* The keyword -> option rule is written from the CLI contract: foo_bar |-> --foo-bar, *)
(* with the five short aliases below.  Which options each sub-command accepts, and      *)
(* whether they take a value, comes from the clap definitions of the current build.     *)
EXTENDS Integers, Sequences, FiniteSets, TLC

\* text helpers on STRING are not available in TLC; keyword and option names are therefore
\* given as code-point sequences in the parameter file
USCORE == 95
DASH == 45
Dashed(name) == [i \in 1..Len(name) |-> IF name[i] = USCORE THEN DASH ELSE name[i]]
Aliases == [ k \in {"source", "input_format", "repo_path", "verbose", "format"} |->
               CASE k = "source" -> <<45, 115>>          \* -s
                 [] k = "input_format" -> <<45, 102>>    \* -f
                 [] k = "repo_path" -> <<45, 67>>        \* -C
                 [] k = "verbose" -> <<45, 118>>         \* -v
                 [] k = "format" -> <<45, 45, 102, 111, 114, 109, 97, 116>> ]   \* --format
\* kw = [name (STRING), text (code points), bool (BOOLEAN)]
OptionOf(kw) == IF kw.name \in DOMAIN Aliases THEN Aliases[kw.name] ELSE <<DASH, DASH>> \o Dashed(kw.text)

\* value classes: "none", "false", "true", "zero", "valid", "empty" (the empty string) and "hostile"
\* (a text with a leading dash, a space, a non-ASCII letter and a newline): both are "any other
\* value" and must be passed on as they are - the wrapper is not the place to drop or quote them
Hostile == <<45, 233, 32, 120, 10, 121>>
Contribution(kw, vclass, valid) ==
  CASE vclass \in {"none", "false"} -> <<>>
    [] vclass = "true"  -> <<OptionOf(kw)>>
    [] vclass = "zero"  -> <<OptionOf(kw), <<48>>>>
    [] vclass = "empty" -> <<OptionOf(kw), <<>>>>
    [] vclass = "hostile" -> <<OptionOf(kw), Hostile>>
    [] vclass = "valid" -> IF kw.bool THEN <<OptionOf(kw)>> ELSE <<OptionOf(kw), valid>>
\* _extend_args as a machine over the (keyword, value) list
RECURSIVE ExtendArgs(_, _)
ExtendArgs(args, pairs) ==
  IF pairs = <<>> THEN args
  ELSE ExtendArgs(args \o Contribution(pairs[1].kw, pairs[1].vclass, pairs[1].valid), Tail(pairs))
=============================================================================
