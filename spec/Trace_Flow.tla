------------------------------ MODULE Trace_Flow ------------------------------
(* Validates recorded `zerv flow` runs against Flow.tla:                           *)
(*  components : the observed variables equal FlowResult(f) (hash and wall clock   *)
(*               are opaque markers; the hash contract is checked by the harness)  *)
(*  bounds     : for a final-release tag the OBSERVED SemVer / PEP 440 strings     *)
(*               satisfy X.Y.Z < V < X.Y.(Z+1) (or equal the tag when clean),      *)
(*               judged by the specification's order modules on the parsed strings *)
(*  monotonic  : in commit mode one more commit gives a strictly greater version   *)
(* A rejected event prints MISMATCH <line> <reason>.                               *)
EXTENDS Flow, Json, IOUtils
R  == INSTANCE Render
SO == INSTANCE SemVerOrder
PO == INSTANCE Pep440Order
Rec == ndJsonDeserialize(IOEnv.TRACE)
VARIABLE l
Init == l = 1

NoTxt == [s |-> 0, v |-> <<>>]
BareSchema == R!PresetSchema("standard", "-base", 0, 0, FALSE, FALSE)
BareSt(vv) == [ v |-> vv, distance |-> NONE, dirty |-> NONE, branch |-> NoTxt, hash |-> NoTxt, custom |-> <<>>,
                bts |-> R!NoInstant, btsText |-> NoTxt, lts |-> R!NoInstant, ltsText |-> NoTxt, lbranch |-> NoTxt, lhash |-> NoTxt ]
SvText(vv)  == R!RenderSemVer(BareSchema, BareSt(vv))
PepText(vv) == R!RenderPep440(BareSchema, BareSt(vv))
Plain(t, bump) == [t EXCEPT !.patch = @ + bump]
SvLess(x, y)  == SO!SvCmp(SO!Parse(x), SO!Parse(y)) < 0
PepLess(x, y) == PO!PepCmp(PO!Greedy(x), PO!Greedy(y)) < 0
NoLocal(x) == [x EXCEPT !.hasLoc = FALSE, !.loc = <<>>]
FinalTag(t) == t.pre.l = "none" /\ t.post = NONE /\ t.dev = NONE

Components(e) ==
  LET res == FlowResult(e.f) IN
  IF res.err THEN e.out.kind = "err"
  ELSE /\ e.out.kind = "ok" /\ e.out.cx = res.cx /\ e.hash_ok
       \* the pre-release number: the branch hash (opaque; the harness says whether the number is the
       \* hash it obtained independently for this branch and length) or the resolved number
       /\ IF res.v.pre.n = HASH THEN e.pre_is_hash /\ [e.out.v EXCEPT !.pre.n = HASH] = res.v
          ELSE e.out.v = res.v
WellFormed(e) ==
  e.out.kind = "ok" => /\ e.semver.ok /\ SO!IsSemVer(e.semver.s)
                       /\ e.pep440.ok /\ PO!GreedyAccepts(e.pep440.s) /\ PO!NormalOf(e.pep440.s) = e.pep440.s
Bounds(e) ==
  LET g == e.f  t == e.f.tag IN
  (e.out.kind = "ok" /\ e.semver.ok /\ e.pep440.ok /\ FinalTag(t) /\ g.post = NONE) =>
    IF ~Active(CtxOf(g, FALSE))
    THEN /\ SO!SvCmp(SO!Parse(e.semver.s), SO!Parse(SvText(t))) = 0
         /\ PO!PepCmp(NoLocal(PO!Greedy(e.pep440.s)), PO!Greedy(PepText(t))) = 0
    ELSE /\ t.epoch = NONE => (SvLess(SvText(t), e.semver.s) /\ SvLess(e.semver.s, SvText(Plain(t, 1))))
         /\ PepLess(PepText(t), e.pep440.s) /\ PepLess(e.pep440.s, PepText(Plain(t, 1)))
\* a clean checkout at a pre-release tag of the shape flow produces yields that tag unchanged
ShowsPost == {"", "-no-context", "-context", "-base-prerelease-post", "-base-prerelease-post-dev",
              "-base-prerelease-post-context", "-base-prerelease-post-dev-context"}
FlowShape(tg) == tg.pre.l # "none" /\ tg.pre.n # NONE /\ tg.post # NONE /\ tg.dev = NONE
\* the tag itself as text: every component it carries is printed (fixed preset base-prerelease-post-dev)
FullSchema == R!PresetSchema("standard", "-base-prerelease-post-dev", 0, 0, FALSE, FALSE)
FullSv(vv)  == R!RenderSemVer(FullSchema, BareSt(vv))
FullPep(vv) == R!RenderPep440(FullSchema, BareSt(vv))
PreTagExact(e) ==
  LET g == e.f  t == e.f.tag IN
  (e.out.kind = "ok" /\ e.semver.ok /\ e.pep440.ok /\ FlowShape(t) /\ g.post = NONE /\ ~Active(CtxOf(g, FALSE)) /\ g.suffix \in ShowsPost) =>
     /\ SO!SvCmp(SO!Parse(e.semver.s), SO!Parse(FullSv(t))) = 0
     /\ PO!PepCmp(NoLocal(PO!Greedy(e.pep440.s)), PO!Greedy(FullPep(t))) = 0
     /\ g.suffix \in {"", "-no-context", "-base-prerelease-post", "-base-prerelease-post-dev"}
           => (e.semver.s = FullSv(t) /\ e.pep440.s = FullPep(t))
Monotonic(e) ==
  LET g == e.f  res == FlowResult(e.f) IN
  (e.out.kind = "ok" /\ ~res.err /\ g.distance # NONE /\ ~g.clean /\ res.r.mode = "commit"
     /\ (FinalTag(g.tag) \/ g.distance >= 1) /\ e.semver.ok /\ e.nsemver.ok /\ e.pep440.ok /\ e.npep440.ok) =>
    SvLess(e.semver.s, e.nsemver.s) /\ PepLess(e.pep440.s, e.npep440.s)

\* every clause that fails is reported (comma-separated): a wrong component (C04) must not hide that the
\* observed strings also break the order claims (C03), which are judged on the strings alone
Reason(e) == IF e.panic THEN "panic"
             ELSE IF ~WellFormed(e) THEN (IF ~Components(e) THEN "components,wellformed" ELSE "wellformed")
             ELSE LET c == IF ~Components(e) THEN "components," ELSE ""
                      b == IF ~Bounds(e) \/ ~PreTagExact(e) THEN "bounds," ELSE ""
                      m == IF ~Monotonic(e) THEN "monotonic," ELSE ""
                  IN IF c \o b \o m = "" THEN "ok" ELSE c \o b \o m
Next == /\ l <= Len(Rec)
        /\ LET why == Reason(Rec[l]) IN IF why = "ok" THEN TRUE ELSE PrintT("MISMATCH " \o ToString(l) \o " " \o why)
        /\ l' = l + 1
Spec == Init /\ [][Next]_l
AllConsumed == IF TLCGet("stats").diameter = Len(Rec) + 1 THEN TRUE
               ELSE PrintT("UNCONSUMED " \o ToString(TLCGet("stats").diameter)) /\ FALSE
=============================================================================
