----------------------------- MODULE Trace_BigBump -----------------------------
(* C05 at the top of the number range.  Each event is one `zerv version` run from a  *)
(* SemVer tag whose numbers are arbitrary u64 values, with one level addressed by an  *)
(* override and/or a bump (by name).  Levels in precedence order:                     *)
(*   1 epoch  2 major  3 minor  4 patch  5 pre-release number  6 post  7 dev          *)
(* e.start / e.out.v : sequences of 7 texts (<<>> = unset); e.level; e.ov, e.bp       *)
(* (texts, <<>> = not given).  The law is ResetLaw's, on decimal texts: the level     *)
(* becomes override-or-current (+ bump), higher levels are unchanged, a bump resets    *)
(* lower levels (numbers to 0, pre-release / post / dev to unset) - and a result        *)
(* beyond u64 is refused, as is an override or bump amount beyond u32 (the flags' type). *)
EXTENDS BigNum, TLC, Json, IOUtils
Rec == ndJsonDeserialize(IOEnv.TRACE)
VARIABLE l
Init == l = 1
Unset == <<>>
Zero == <<48>>
\* value of a lower level after a bump above it
ResetOf(lv) == IF lv \in {2, 3, 4} THEN Zero ELSE Unset
Or0(t) == IF t = Unset THEN Zero ELSE t
\* flag values are u32 by the CLI's definition (Template<u32>): a larger amount is refused
U32Max == <<52,50,57,52,57,54,55,50,57,53>>
FlagOk(t) == t = Unset \/ NumCmp(StripZ(t), U32Max) <= 0
Expected(e) ==
  LET base == IF e.ov # Unset THEN e.ov ELSE e.start[e.level]
      val  == IF e.bp # Unset THEN DecAdd(Or0(base), e.bp) ELSE base
      raw  == [i \in 1..7 |-> IF i < e.level THEN e.start[i]
                               ELSE IF i = e.level THEN val
                               ELSE IF e.bp # Unset THEN ResetOf(i) ELSE e.start[i]]
  IN [ err |-> ~FlagOk(e.ov) \/ ~FlagOk(e.bp) \/ ~FitsU64(Or0(val)),
       \* the pipeline's last step (ZervModel!Normalize): an epoch of 0 is reported as unset
       v   |-> [raw EXCEPT ![1] = IF @ = Zero THEN Unset ELSE @] ]
Reason(e) ==
  LET x == Expected(e) IN
  IF e.out.kind = "panic" THEN "panic"
  ELSE IF x.err THEN (IF e.out.kind = "err" THEN "ok" ELSE "overflow-not-refused")
  ELSE IF e.out.kind # "ok" THEN "refused"
  ELSE IF \E i \in 1..(e.level - 1) : e.out.v[i] # x.v[i] THEN "higher-level-changed"
  ELSE IF e.out.v[e.level] # x.v[e.level] THEN "value"
  ELSE IF e.out.v # x.v THEN "lower-level-reset"
  ELSE "ok"
Next == /\ l <= Len(Rec)
        /\ LET why == Reason(Rec[l]) IN IF why = "ok" THEN TRUE ELSE PrintT("MISMATCH " \o ToString(l) \o " " \o why)
        /\ l' = l + 1
Spec == Init /\ [][Next]_l
AllConsumed == IF TLCGet("stats").diameter = Len(Rec) + 1 THEN TRUE
               ELSE PrintT("UNCONSUMED " \o ToString(TLCGet("stats").diameter)) /\ FALSE
=============================================================================
