-------------------------------- MODULE BigNum --------------------------------
(* Decimal arithmetic on digit texts (code points), for the values TLC integers     *)
(* cannot carry: 2^31 .. 2^64.  Used to state the override / bump / reset law of    *)
(* C05 at the top of zerv's u64 range, where a narrower intermediate type would     *)
(* wrap or truncate.                                                                 *)
EXTENDS Text, Integers, Sequences

Rev(s) == [i \in 1..Len(s) |-> s[Len(s) + 1 - i]]
\* a, b: reversed sequences of digit VALUES (least significant first)
RECURSIVE AddRev(_, _, _)
AddRev(x, y, carry) ==
  IF x = <<>> /\ y = <<>> THEN (IF carry = 0 THEN <<>> ELSE <<carry>>)
  ELSE LET dx == IF x = <<>> THEN 0 ELSE Head(x)
           dy == IF y = <<>> THEN 0 ELSE Head(y)
           s  == dx + dy + carry
       IN <<s % 10>> \o AddRev(IF x = <<>> THEN <<>> ELSE Tail(x), IF y = <<>> THEN <<>> ELSE Tail(y), s \div 10)
Vals(t) == [i \in 1..Len(t) |-> t[i] - 48]
Chars(v) == [i \in 1..Len(v) |-> v[i] + 48]
\* sum of two canonical numerals, as a canonical numeral
DecAdd(x, y) == StripZ(Chars(Rev(AddRev(Rev(Vals(x)), Rev(Vals(y)), 0))))
U64Max == <<49,56,52,52,54,55,52,52,48,55,51,55,48,57,53,53,49,54,49,53>>
FitsU64(t) == NumCmp(StripZ(t), U64Max) <= 0

\* sanity (evaluated by TLC when the module is loaded by a trace spec)
ASSUME DecAdd(<<57,57>>, <<49>>) = <<49,48,48>>                 \* 99 + 1 = 100
ASSUME DecAdd(<<48>>, <<48>>) = <<48>>
ASSUME DecAdd(U64Max, <<49>>) = <<49,56,52,52,54,55,52,52,48,55,51,55,48,57,53,53,49,54,49,54>>
ASSUME ~FitsU64(DecAdd(U64Max, <<49>>)) /\ FitsU64(U64Max)
=============================================================================
