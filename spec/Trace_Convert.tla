---------------------------- MODULE Trace_Convert ----------------------------
(* Validates recorded `zerv render` conversions of arbitrary (mostly accepted)     *)
(* PEP 440 and SemVer strings:                                                     *)
(*  pep: s -> SemVer (sv) -> SemVer again (sv2) ; sv -> PEP 440 (back) ;            *)
(*       s -> PEP 440 (pp) -> PEP 440 again (pp2)                                   *)
(*  sv : s -> PEP 440 (pep) -> PEP 440 again (pep2) ; s -> SemVer (ss)              *)
(* against the grammar and order modules: the PEP 440 rendering is the normal form, *)
(* every rendering is well-formed and a fixed point of re-conversion, and a PEP 440 *)
(* version with at most three release numbers comes back equal.                    *)
EXTENDS Pep440Order, TLC, Json, IOUtils
S == INSTANCE SemVerGrammar
Rec == ndJsonDeserialize(IOEnv.TRACE)
VARIABLE l
Init == l = 1

NoPanic(e, fields) == \A f \in fields : ~e[f].panic
PepEvent(e) ==
  /\ NoPanic(e, {"sv", "sv2", "back", "pp", "pp2"})
  /\ IF ~GreedyAccepts(e.s) THEN ~e.sv.ok /\ ~e.pp.ok
     ELSE IF ~AllFitU32(Greedy(e.s)) THEN TRUE            \* may be rejected (C09 / C07)
     ELSE LET g == Greedy(e.s) IN
          /\ e.pp.ok /\ e.pp.s = NormalOf(e.s)             \* PEP 440 -> PEP 440 is normalisation
          /\ e.pp2.ok /\ e.pp2.s = e.pp.s                  \* ... and a fixed point
          /\ e.sv.ok /\ S!IsSemVer(e.sv.s)                 \* the SemVer rendering is SemVer
          /\ e.sv2.ok /\ e.sv2.s = e.sv.s                  \* ... and a fixed point of re-conversion
          /\ e.back.ok /\ GreedyAccepts(e.back.s) /\ NormalOf(e.back.s) = e.back.s
          /\ Len(g.rel) <= 3 => PepCmp(Greedy(e.back.s), g) = 0     \* back to an equal version
SvEvent(e) ==
  /\ NoPanic(e, {"pep", "pep2", "ss"})
  /\ IF ~S!IsSemVer(e.s) THEN ~e.pep.ok /\ ~e.ss.ok
     ELSE /\ e.pep.ok => /\ GreedyAccepts(e.pep.s) /\ NormalOf(e.pep.s) = e.pep.s
                         /\ e.pep2.ok /\ e.pep2.s = e.pep.s
          /\ e.ss.ok => S!IsSemVer(e.ss.s)
EventOk(e) == CASE e.k = "pep" -> PepEvent(e) [] e.k = "sv" -> SvEvent(e) [] OTHER -> FALSE
Next == /\ l <= Len(Rec)
        /\ IF EventOk(Rec[l]) THEN TRUE ELSE PrintT("MISMATCH " \o ToString(l))
        /\ l' = l + 1
Spec == Init /\ [][Next]_l
AllConsumed == IF TLCGet("stats").diameter = Len(Rec) + 1 THEN TRUE
               ELSE PrintT("UNCONSUMED " \o ToString(TLCGet("stats").diameter)) /\ FALSE
=============================================================================
