---------------------------- MODULE Trace_Convert ----------------------------
(* Validates recorded `zerv render` conversions of arbitrary (mostly accepted)     *)
(* PEP 440 and SemVer strings:                                                     *)
(*  pep: s -> SemVer (sv) -> SemVer again (sv2) ; sv -> PEP 440 (back) ;            *)
(*       s -> PEP 440 (pp) -> PEP 440 again (pp2)                                   *)
(*  sv : s -> PEP 440 (pep) -> PEP 440 again (pep2) ; s -> SemVer (ss)              *)
(* against the grammar and order modules: the PEP 440 rendering is the normal form, *)
(* every rendering is well-formed and a fixed point of re-conversion, and a PEP 440 *)
(* version with at most three release numbers comes back equal.                    *)
EXTENDS Pep440Order, TLC, Json, IOUtils
S == INSTANCE SemVerGrammar
Rec == ndJsonDeserialize(IOEnv.TRACE)
VARIABLE l
Init == l = 1

NoPanic(e, fields) == \A f \in fields : ~e[f].panic
PepEvent(e) ==
  /\ NoPanic(e, {"sv", "sv2", "back", "pp", "pp2"})
  /\ IF ~GreedyAccepts(e.s) THEN ~e.sv.ok /\ ~e.pp.ok
     ELSE IF ~AllFitU32(Greedy(e.s)) THEN TRUE            \* may be rejected (C09 / C07)
     ELSE LET g == Greedy(e.s) IN
          /\ e.pp.ok /\ e.pp.s = NormalOf(e.s)             \* PEP 440 -> PEP 440 is normalisation
          /\ e.pp2.ok /\ e.pp2.s = e.pp.s                  \* ... and a fixed point
          /\ e.sv.ok /\ S!IsSemVer(e.sv.s)                 \* the SemVer rendering is SemVer
          /\ e.sv2.ok /\ e.sv2.s = e.sv.s                  \* ... and a fixed point of re-conversion
          /\ e.back.ok /\ GreedyAccepts(e.back.s) /\ NormalOf(e.back.s) = e.back.s
          /\ Len(g.rel) <= 3 => PepCmp(Greedy(e.back.s), g) = 0     \* back to an equal version
SvEvent(e) ==
  /\ NoPanic(e, {"pep", "pep2", "ss"})
  /\ IF ~S!IsSemVer(e.s) THEN ~e.pep.ok /\ ~e.ss.ok
     ELSE /\ e.pep.ok => /\ GreedyAccepts(e.pep.s) /\ NormalOf(e.pep.s) = e.pep.s
                         /\ e.pep2.ok /\ e.pep2.s = e.pep.s
          /\ e.ss.ok => S!IsSemVer(e.ss.s)
\* ---- format auto-detection (beyond the listed properties; reported as a deviation) ----
\* `-f auto` / `check` without --format: SemVer is tried first, then PEP 440; `check` reports
\* every format that accepts, PEP 440 first, with the normal form when it differs from the input.
TVersion == <<86,101,114,115,105,111,110,58,32>>                                             \* "Version: "
TPep     == <<10003,32,86,97,108,105,100,32,80,69,80,52,52,48,32,102,111,114,109,97,116>>       \* "(check mark) Valid PEP440 format"
TSv      == <<10003,32,86,97,108,105,100,32,83,101,109,86,101,114,32,102,111,114,109,97,116>>   \* "(check mark) Valid SemVer format"
TNorm    == <<32,40,110,111,114,109,97,108,105,122,101,100,58,32>>                            \* " (normalized: "
Verdict(head, s, n) == IF n = s THEN head ELSE head \o TNorm \o n \o <<41>>
\* a string whose numbers cannot be represented may be rejected by a parser: the recorded explicit
\* verdict decides then, the grammar otherwise
IsSv(e)  == IF ~S!IsSemVer(e.s) THEN FALSE ELSE IF S!CoreFits(e.s) THEN TRUE ELSE e.chk_sv.ok
IsPep(e) == IF ~GreedyAccepts(e.s) THEN FALSE ELSE IF AllFitU32(Greedy(e.s)) THEN TRUE ELSE e.chk_pp.ok
Failed(r) == ~r.ok /\ ~r.panic
AutoEvent(e) ==
  /\ NoPanic(e, {"au_sv", "au_pp", "sv_sv", "sv_pp", "pp_sv", "pp_pp", "chk", "chk_sv", "chk_pp"})
  /\ e.chk_sv.ok = IsSv(e) /\ e.chk_pp.ok = IsPep(e)
  /\ IF IsSv(e) THEN e.au_sv = e.sv_sv /\ e.au_pp = e.sv_pp
     ELSE IF IsPep(e) THEN e.au_sv = e.pp_sv /\ e.au_pp = e.pp_pp
     ELSE Failed(e.au_sv) /\ Failed(e.au_pp)
  /\ e.chk.ok = (IsSv(e) \/ IsPep(e))
  /\ e.chk.ok => e.chk.lines = <<TVersion \o e.s>>
                    \o (IF IsPep(e) THEN <<Verdict(TPep, e.s, NormalOf(e.s))>> ELSE <<>>)
                    \o (IF IsSv(e) THEN <<Verdict(TSv, e.s, S!StripV(e.s))>> ELSE <<>>)
  /\ e.chk_sv.ok => e.chk_sv.lines = <<TVersion \o e.s, Verdict(TSv, e.s, S!StripV(e.s))>>
  /\ e.chk_pp.ok => e.chk_pp.lines = <<TVersion \o e.s, Verdict(TPep, e.s, NormalOf(e.s))>>
EventOk(e) == CASE e.k = "pep" -> PepEvent(e) [] e.k = "sv" -> SvEvent(e) [] e.k = "auto" -> AutoEvent(e) [] OTHER -> FALSE
Next == /\ l <= Len(Rec)
        /\ IF EventOk(Rec[l]) THEN TRUE ELSE PrintT("MISMATCH " \o ToString(l) \o " " \o Rec[l].k)
        /\ l' = l + 1
Spec == Init /\ [][Next]_l
AllConsumed == IF TLCGet("stats").diameter = Len(Rec) + 1 THEN TRUE
               ELSE PrintT("UNCONSUMED " \o ToString(TLCGet("stats").diameter)) /\ FALSE
=============================================================================
