-------------------------------- MODULE MC_Input --------------------------------
(* Generation for the input-selection machine: one line per completed run.            *)
EXTENDS Input, TLC, Json, Sequences
EmitLine == Done => PrintT("REPLAY " \o ToJson([flag |-> flag, stdin |-> stdin, cwd |-> cwd, dashC |-> dashC,
                                                ok |-> result.ok, from |-> result.from]))
=============================================================================
