-------------------------------- MODULE GitRepo --------------------------------
(* A git repository as zerv sees it: a commit DAG, branches, HEAD (on a branch or  *)
(* detached) and tags (lightweight or annotated, several per commit, any name).    *)
(* Actions are the git operations a session performs (including history rewriting:  *)
(* reset --hard, commit --amend, tag -f).  The facts zerv must report   *)
(* (C02) are stated declaratively on the DAG: nearest validly tagged               *)
(* ancestor-or-self, highest version on it, distance, branch.                      *)
(* Commits are numbered 1, 2, 3 ... in creation order; commit 1 is the root.       *)
EXTENDS Integers, Sequences, FiniteSets, TLC
SVG == INSTANCE SemVerOrder        \* SemVer grammar + order
PPG == INSTANCE Pep440Order        \* PEP 440 grammar + order

CONSTANTS MaxCommits, BranchNames, TagNames    \* TagNames: a set of tag texts (code points)

VARIABLES parents,    \* parents[c] : sequence of parent commits (<<>> for the root)
          branches,   \* function: branch name -> commit, defined on existing branches
          head,       \* [b |-> name] on a branch, or [c |-> commit] when detached
          tags        \* set of [name, c, annotated]
gvars == <<parents, branches, head, tags>>

N == Len(parents)
OnBranch == "b" \in DOMAIN head
HeadCommit == IF OnBranch THEN branches[head.b] ELSE head.c
RECURSIVE AncFrom(_, _)
AncFrom(front, seen) ==
  IF front = {} THEN seen
  ELSE LET nxt == UNION { { parents[c][i] : i \in 1..Len(parents[c]) } : c \in front } \ seen
       IN AncFrom(nxt, seen \cup nxt)
Anc(c) == AncFrom({c}, {c})                       \* ancestors-or-self

GInit == /\ parents = << <<>> >>
         /\ branches = [b \in {"main"} |-> 1]
         /\ head = [b |-> "main"]
         /\ tags = {}

MoveHead(c) == IF OnBranch THEN branches' = [branches EXCEPT ![head.b] = c] /\ head' = head
               ELSE head' = [c |-> c] /\ branches' = branches
Commit == /\ N < MaxCommits
          /\ parents' = Append(parents, <<HeadCommit>>)
          /\ MoveHead(N + 1) /\ tags' = tags
Branch(b) == /\ b \notin DOMAIN branches
             /\ branches' = [x \in DOMAIN branches \cup {b} |-> IF x = b THEN HeadCommit ELSE branches[x]]
             /\ UNCHANGED <<parents, head, tags>>
Checkout(b) == /\ b \in DOMAIN branches
               /\ head' = [b |-> b] /\ UNCHANGED <<parents, branches, tags>>
Detach(c) == /\ c \in 1..N
             /\ head' = [c |-> c] /\ UNCHANGED <<parents, branches, tags>>
\* fast-forward: HEAD is a proper ancestor of the other branch
MergeFF(b) == /\ b \in DOMAIN branches /\ HeadCommit # branches[b] /\ HeadCommit \in Anc(branches[b])
              /\ MoveHead(branches[b]) /\ UNCHANGED <<parents, tags>>
\* a real merge commit: the other branch has something HEAD does not
\* (git refuses to merge histories without a common ancestor - possible after the root was amended)
MergeNoFF(b) == /\ N < MaxCommits /\ b \in DOMAIN branches /\ branches[b] \notin Anc(HeadCommit)
                /\ Anc(HeadCommit) \cap Anc(branches[b]) # {}
                /\ parents' = Append(parents, <<HeadCommit, branches[b]>>)
                /\ MoveHead(N + 1) /\ tags' = tags
Tag(t, annotated) == /\ ~\E x \in tags : x.name = t
                     /\ tags' = tags \cup {[name |-> t, c |-> HeadCommit, annotated |-> annotated]}
                     /\ UNCHANGED <<parents, branches, head>>
DeleteTag(t) == /\ \E x \in tags : x.name = t
                /\ tags' = { x \in tags : x.name # t } /\ UNCHANGED <<parents, branches, head>>
\* ---- history rewriting: commits and tags can become unreachable from every ref ----
\* reset --hard <commit>: the checked-out branch (or the detached HEAD) moves to any existing commit
Reset(c) == /\ c \in 1..N /\ c # HeadCommit
            /\ MoveHead(c) /\ UNCHANGED <<parents, tags>>
\* commit --amend: a new commit with the parents of the old HEAD commit takes its place
Amend == /\ N < MaxCommits
         /\ parents' = Append(parents, parents[HeadCommit])
         /\ MoveHead(N + 1) /\ tags' = tags
\* tag -f: an existing tag name is moved to HEAD (and may change its kind)
MoveTag(t, annotated) == /\ \E x \in tags : x.name = t
                         /\ tags' = { x \in tags : x.name # t } \cup {[name |-> t, c |-> HeadCommit, annotated |-> annotated]}
                         /\ UNCHANGED <<parents, branches, head>>

\* ------------------------------------------------------------ what zerv reports --
IsSv(t) == SVG!IsSemVer(t) /\ SVG!CoreFits(t)
IsPep(t) == PPG!GreedyAccepts(t) /\ PPG!AllFitU32(PPG!Greedy(t))
TagsAt(c) == { x.name : x \in { y \in tags : y.c = c } }
\* the valid version tags of a commit under an input format; "auto" decides per commit:
\* the format that parses more of the commit's tags, SemVer on ties
ValidAt(c, fmt) ==
  LET sv == { t \in TagsAt(c) : IsSv(t) }   pp == { t \in TagsAt(c) : IsPep(t) } IN
  CASE fmt = "semver" -> [f |-> "semver", ts |-> sv]
    [] fmt = "pep440" -> [f |-> "pep440", ts |-> pp]
    [] fmt = "auto"   -> IF Cardinality(sv) >= Cardinality(pp) THEN [f |-> "semver", ts |-> sv] ELSE [f |-> "pep440", ts |-> pp]
Cmp(f, a, b) == IF f = "semver" THEN SVG!SvCmp(SVG!Parse(a), SVG!Parse(b)) ELSE PPG!PepCmp(PPG!Greedy(a), PPG!Greedy(b))
MaxTags(c, fmt) == LET va == ValidAt(c, fmt) IN { t \in va.ts : \A u \in va.ts : Cmp(va.f, u, t) <= 0 }
\* nearest validly tagged ancestors-or-self of a commit h (HEAD of the main work tree, or the commit a
\* linked work tree is detached at): no other validly tagged commit between it and h
NearestFrom(h, fmt) ==
  LET A == Anc(h)
      T == { c \in A : ValidAt(c, fmt).ts # {} }
  IN { c \in T : ~\E d \in T : d # c /\ c \in Anc(d) }
DistanceFrom(h, c) == Cardinality(Anc(h) \ Anc(c))
\* every acceptable answer: [tag, c, distance]; empty = "no version tags"
ExpectedFrom(h, fmt) == UNION { { [tag |-> t, c |-> c, distance |-> DistanceFrom(h, c)] : t \in MaxTags(c, fmt) } : c \in NearestFrom(h, fmt) }
Nearest(fmt) == NearestFrom(HeadCommit, fmt)
Distance(c) == DistanceFrom(HeadCommit, c)
Expected(fmt) == ExpectedFrom(HeadCommit, fmt)
BranchReported == IF OnBranch THEN head.b ELSE ""
=============================================================================
