---------------------------- MODULE Pep440Grammar ----------------------------
(* PEP 440, Appendix B ("Parsing version strings with regular expressions"), on  *)
(* code-point sequences, without surrounding white space:                        *)
(*   v? (N!)? N(.N)* pre? post? dev? (+local)?      ASCII, case-insensitive      *)
(* Two formulations: Decomps(s) is the set of ALL decompositions (the regular     *)
(* language, existentially); Greedy(s) is the deterministic leftmost-greedy       *)
(* parse that the reference regex selects (it matters for "1.0a-1": pre-release   *)
(* number 1, not pre-release a followed by the "-1" post form).                   *)
EXTENDS Text

SepChars == {DOT, DASH, USCORE}
W(str) == CASE str = "alpha" -> <<97,108,112,104,97>> [] str = "a" -> <<97>>
            [] str = "beta" -> <<98,101,116,97>>      [] str = "b" -> <<98>>
            [] str = "preview" -> <<112,114,101,118,105,101,119>> [] str = "pre" -> <<112,114,101>>
            [] str = "c" -> <<99>>                     [] str = "rc" -> <<114,99>>
            [] str = "post" -> <<112,111,115,116>>     [] str = "rev" -> <<114,101,118>>
            [] str = "r" -> <<114>>                    [] str = "dev" -> <<100,101,118>>
\* alternatives in the order the reference regex tries them
PreLabels  == <<"alpha", "a", "beta", "b", "preview", "pre", "c", "rc">>
PostLabels == <<"post", "rev", "r">>
DevLabels  == <<"dev">>
NormLabel(w) == CASE w \in {"alpha", "a"} -> <<97>> [] w \in {"beta", "b"} -> <<98>>
                  [] w \in {"c", "rc", "pre", "preview"} -> <<114, 99>>

\* does the ASCII-lower-cased text after position p start with word w ?
MatchAt(s, p, w) == /\ p + Len(w) <= Len(s)
                    /\ \A i \in 1..Len(w) : LowerC(s[p + i]) = w[i]
IsSepAt(s, p) == p + 1 <= Len(s) /\ s[p + 1] \in SepChars
IsDigitAt(s, p) == p + 1 <= Len(s) /\ IsDigit(s[p + 1])
\* end of the maximal digit run that starts after position p (= p when there is none)
RECURSIVE DigitsEnd(_, _)
DigitsEnd(s, p) == IF IsDigitAt(s, p) THEN DigitsEnd(s, p + 1) ELSE p
\* every end of a non-empty digit run starting after p
DigitRunEnds(s, p) == (p + 1)..DigitsEnd(s, p)
Sub(s, p, q) == IF q <= p THEN <<>> ELSE SubSeq(s, p + 1, q)

NoNum == <<>>          \* an implicit number
Absent == <<>>
\* value: [ep, rel, pre, post, dev, loc]; pre = <<>> or <<normlabel, numtext>>;
\* post / dev = <<>> or <<numtext>>; loc = <<>> or the text after '+'
V0 == [p |-> 0, ep |-> <<>>, rel |-> <<>>, pre |-> Absent, post |-> Absent, dev |-> Absent, loc |-> <<>>, hasLoc |-> FALSE]

\* ------------------------------------------------------------ local version --
LocalChar(c) == IsAlnum(c)
ValidLocal(t) == /\ Len(t) > 0
                 /\ \A i \in 1..Len(t) : LocalChar(t[i]) \/ t[i] \in SepChars
                 /\ LocalChar(t[1]) /\ LocalChar(t[Len(t)])
                 /\ \A i \in 1..(Len(t) - 1) : ~(t[i] \in SepChars /\ t[i + 1] \in SepChars)

\* --------------------------------------------------- all decompositions (E) --
EV(s) == {V0} \cup (IF Len(s) > 0 /\ s[1] \in {118, 86} THEN {[V0 EXCEPT !.p = 1]} ELSE {})
EEpoch(s, st) == {st} \cup { [st EXCEPT !.p = q + 1, !.ep = Sub(s, st.p, q)] :
                               q \in { x \in DigitRunEnds(s, st.p) : x + 1 <= Len(s) /\ s[x + 1] = BANG } }
RECURSIVE ERelFrom(_, _, _)
ERelFrom(s, p, acc) ==
  UNION { LET acc2 == Append(acc, Sub(s, p, q)) IN
          { <<q, acc2>> } \cup (IF q + 1 <= Len(s) /\ s[q + 1] = DOT THEN ERelFrom(s, q + 1, acc2) ELSE {})
          : q \in DigitRunEnds(s, p) }
ERelease(s, st) == { [st EXCEPT !.p = r[1], !.rel = r[2]] : r \in ERelFrom(s, st.p, <<>>) }
\* a labelled group: sep? label sep? number?  -> set of <<end, labelword, numtext>>
ELabelled(s, p, labels) ==
  UNION { UNION { UNION {
      LET a == p1 + Len(W(labels[k])) IN
      { <<b, labels[k], NoNum>> : b \in {a} \cup (IF IsSepAt(s, a) THEN {a + 1} ELSE {}) }
      \cup UNION { { <<q, labels[k], Sub(s, b, q)>> : q \in DigitRunEnds(s, b) }
                   : b \in {a} \cup (IF IsSepAt(s, a) THEN {a + 1} ELSE {}) }
    : k \in { k \in 1..Len(labels) : MatchAt(s, p1, W(labels[k])) } }
    : p1 \in {p} \cup (IF IsSepAt(s, p) THEN {p + 1} ELSE {}) } : dummy \in {0} }
EPre(s, st)  == {st} \cup { [st EXCEPT !.p = g[1], !.pre = <<NormLabel(g[2]), g[3]>>] : g \in ELabelled(s, st.p, PreLabels) }
EPost(s, st) == {st}
   \cup { [st EXCEPT !.p = g[1], !.post = <<g[3]>>] : g \in ELabelled(s, st.p, PostLabels) }
   \cup (IF st.p + 1 <= Len(s) /\ s[st.p + 1] = DASH
         THEN { [st EXCEPT !.p = q, !.post = <<Sub(s, st.p + 1, q)>>] : q \in DigitRunEnds(s, st.p + 1) } ELSE {})
EDev(s, st)  == {st} \cup { [st EXCEPT !.p = g[1], !.dev = <<g[3]>>] : g \in ELabelled(s, st.p, DevLabels) }
ELocal(s, st) == {st} \cup (IF st.p + 1 <= Len(s) /\ s[st.p + 1] = PLUS /\ ValidLocal(Sub(s, st.p + 1, Len(s)))
                            THEN {[st EXCEPT !.p = Len(s), !.loc = Sub(s, st.p + 1, Len(s)), !.hasLoc = TRUE]} ELSE {})
Lift(F(_, _), s, S) == UNION { F(s, st) : st \in S }
Decomps(s) ==
  LET a == Lift(EEpoch, s, EV(s))      b == Lift(ERelease, s, a)
      c == Lift(EPre, s, b)            d == Lift(EPost, s, c)
      e == Lift(EDev, s, d)            f == Lift(ELocal, s, e)
  IN { st \in f : st.p = Len(s) }
IsPep440(s) == Decomps(s) # {}

\* ---------------------------------------------------- leftmost-greedy parse --
FAIL == [V0 EXCEPT !.p = -1]
GV(s) == IF Len(s) > 0 /\ s[1] \in {118, 86} THEN [V0 EXCEPT !.p = 1] ELSE V0
GEpoch(s, st) == LET q == DigitsEnd(s, st.p) IN
  IF q > st.p /\ q + 1 <= Len(s) /\ s[q + 1] = BANG THEN [st EXCEPT !.p = q + 1, !.ep = Sub(s, st.p, q)] ELSE st
RECURSIVE GRelFrom(_, _, _)
GRelFrom(s, p, acc) ==
  LET q == DigitsEnd(s, p) IN
  IF q = p THEN <<-1, acc>>
  ELSE LET acc2 == Append(acc, Sub(s, p, q)) IN
       IF q + 1 <= Len(s) /\ s[q + 1] = DOT /\ DigitsEnd(s, q + 1) > q + 1 THEN GRelFrom(s, q + 1, acc2)
       ELSE <<q, acc2>>
GRelease(s, st) == LET r == GRelFrom(s, st.p, <<>>) IN
  IF r[1] < 0 THEN FAIL ELSE [st EXCEPT !.p = r[1], !.rel = r[2]]
\* first label (in regex order) that matches after position p; 0 if none
FirstLabel(s, p, labels) ==
  LET ks == { k \in 1..Len(labels) : MatchAt(s, p, W(labels[k])) } IN
  IF ks = {} THEN 0 ELSE CHOOSE k \in ks : \A j \in ks : k <= j
\* greedy labelled group; <<-1>> when the group does not match at p
GLabelled(s, p, labels) ==
  LET p1 == IF IsSepAt(s, p) THEN p + 1 ELSE p
      k  == FirstLabel(s, p1, labels) IN
  IF k = 0 THEN <<-1>>
  ELSE LET a == p1 + Len(W(labels[k]))
           b == IF IsSepAt(s, a) THEN a + 1 ELSE a
           q == DigitsEnd(s, b) IN
       <<q, labels[k], Sub(s, b, q)>>
GPre(s, st) == LET g == GLabelled(s, st.p, PreLabels) IN
  IF g[1] < 0 THEN st ELSE [st EXCEPT !.p = g[1], !.pre = <<NormLabel(g[2]), g[3]>>]
GPost(s, st) ==
  IF st.p + 1 <= Len(s) /\ s[st.p + 1] = DASH /\ DigitsEnd(s, st.p + 1) > st.p + 1
  THEN LET q == DigitsEnd(s, st.p + 1) IN [st EXCEPT !.p = q, !.post = <<Sub(s, st.p + 1, q)>>]
  ELSE LET g == GLabelled(s, st.p, PostLabels) IN
       IF g[1] < 0 THEN st ELSE [st EXCEPT !.p = g[1], !.post = <<g[3]>>]
GDev(s, st) == LET g == GLabelled(s, st.p, DevLabels) IN
  IF g[1] < 0 THEN st ELSE [st EXCEPT !.p = g[1], !.dev = <<g[3]>>]
GLocal(s, st) ==
  IF st.p + 1 <= Len(s) /\ s[st.p + 1] = PLUS /\ ValidLocal(Sub(s, st.p + 1, Len(s)))
  THEN [st EXCEPT !.p = Len(s), !.loc = Sub(s, st.p + 1, Len(s)), !.hasLoc = TRUE] ELSE st
Greedy(s) ==
  LET r == GRelease(s, GEpoch(s, GV(s))) IN
  IF r.p < 0 THEN FAIL
  ELSE LET f == GLocal(s, GDev(s, GPost(s, GPre(s, r)))) IN IF f.p = Len(s) THEN f ELSE FAIL
GreedyAccepts(s) == Greedy(s).p >= 0

\* ---------------------------------------------------------------- normal form --
NumOr0(t) == IF t = NoNum THEN <<ZERO>> ELSE StripZ(t)
NormLocalPart(t) == LET l == LowerS(t) IN IF AllDigits(l) THEN StripZ(l) ELSE l
NormLocal(t) ==
  LET u == [i \in 1..Len(t) |-> IF t[i] \in SepChars THEN DOT ELSE t[i]]
      parts == Split(u, DOT)
  IN Join([k \in 1..Len(parts) |-> NormLocalPart(parts[k])], <<DOT>>)
Normal(v) ==
  (IF v.ep = <<>> \/ StripZ(v.ep) = <<ZERO>> THEN <<>> ELSE StripZ(v.ep) \o <<BANG>>)
  \o Join([k \in 1..Len(v.rel) |-> StripZ(v.rel[k])], <<DOT>>)
  \o (IF v.pre = Absent THEN <<>> ELSE v.pre[1] \o NumOr0(v.pre[2]))
  \o (IF v.post = Absent THEN <<>> ELSE <<DOT>> \o W("post") \o NumOr0(v.post[1]))
  \o (IF v.dev = Absent THEN <<>> ELSE <<DOT>> \o W("dev") \o NumOr0(v.dev[1]))
  \o (IF v.hasLoc THEN <<PLUS>> \o NormLocal(v.loc) ELSE <<>>)
NormalOf(s) == Normal(Greedy(s))

\* every number zerv must represent for this string fits u32 ?
U32MAX == <<4,2,9,4,9,6,7,2,9,5>>
DVal(t) == [i \in 1..Len(t) |-> t[i] - 48]
FitsU32(t) == t = <<>> \/ NumCmp(DVal(StripZ(t)), U32MAX) <= 0
LocalNums(v) == IF ~v.hasLoc THEN {} ELSE
  LET u == [i \in 1..Len(v.loc) |-> IF v.loc[i] \in SepChars THEN DOT ELSE v.loc[i]] IN
  { t \in { Split(u, DOT)[k] : k \in 1..Len(Split(u, DOT)) } : AllDigits(t) }
AllFitU32(v) ==
  /\ FitsU32(v.ep)
  /\ \A k \in 1..Len(v.rel) : FitsU32(v.rel[k])
  /\ v.pre # Absent => FitsU32(v.pre[2])
  /\ v.post # Absent => FitsU32(v.post[1])
  /\ v.dev # Absent => FitsU32(v.dev[1])
  /\ \A t \in LocalNums(v) : FitsU32(t)
=============================================================================
