-------------------------------- MODULE Render --------------------------------
(* Rendering a Zerv object (schema + variables) as SemVer and as PEP 440          *)
(* (src/version/semver/from_zerv.rs, src/version/pep440/from_zerv.rs,             *)
(* src/version/zerv/components.rs), written from the documented placement rules.  *)
(* Variables: numbers are integers (NONE = -1 unset); texts are options           *)
(* [s |-> 0] / [s |-> 1, v |-> text]; a timestamp is NONE or an instant           *)
(* [c |-> calendar record, sod |-> second of day].                                *)
EXTENDS Schema, Sanitizer, Calendar

NONE == -1
NoText == [s |-> 0, v |-> <<>>]
SomeText(t) == [s |-> 1, v |-> t]
NoInstant == [c |-> Day0, sod |-> -1]
HasInstant(i) == i.sod >= 0

SemverSan == [sep |-> DOT, lower |-> FALSE, keep |-> FALSE, max |-> -1]
LocalSan  == [sep |-> DOT, lower |-> TRUE,  keep |-> FALSE, max |-> -1]
KeySan    == LocalSan
\* san = "uint" | "semver" | "local"
San(san, t) == CASE san = "uint" -> UIntContract(t)
                 [] san = "semver" -> Full(SemverSan, t)
                 [] san = "local" -> Full(LocalSan, t)

T_true  == <<116, 114, 117, 101>>
T_false == <<102, 97, 108, 115, 101>>
Txt(str) == CASE str = "epoch" -> <<101,112,111,99,104>> [] str = "post" -> <<112,111,115,116>>
              [] str = "dev" -> <<100,101,118>> [] str = "alpha" -> <<97,108,112,104,97>>
              [] str = "beta" -> <<98,101,116,97>> [] str = "rc" -> <<114,99>>
              [] str = "a" -> <<97>> [] str = "b" -> <<98>>

\* the timestamp used by ts(...): the bumped one, else the last (tag) one
\* recorded instants carry their civil fields; the closed form of Calendar.tla must confirm them
InstantsOk(st) == (HasInstant(st.bts) => ValidCivil(st.bts.c)) /\ (HasInstant(st.lts) => ValidCivil(st.lts.c))
TsOf(st) == IF HasInstant(st.bts) THEN st.bts ELSE st.lts
\* decimal seconds of an instant (day * 86400 + sod exceeds 2^31 after 2038, so text arithmetic:
\* the harness supplies the instants; the model only needs their printed seconds)
RECURSIVE LookupFrom(_, _, _)
LookupFrom(pairs, key, i) == IF i > Len(pairs) THEN NoText
                             ELSE IF pairs[i][1] = key THEN SomeText(pairs[i][2]) ELSE LookupFrom(pairs, key, i + 1)
Lookup(pairs, key) == LookupFrom(pairs, key, 1)

\* raw (unsanitised) value of a component as an option text
NumOpt(n) == IF n = NONE THEN NoText ELSE SomeText(Dec(n))
Short(h) == IF h.s = 0 THEN NoText ELSE SomeText(Take(h.v, 8))
RawValue(c, st) ==
  CASE c.t = "str"  -> SomeText(c.s)
    [] c.t = "uint" -> SomeText(Dec(c.n))
    [] c.t = "custom" -> Lookup(st.custom, c.s)
    [] c.t = "ts" -> IF HasInstant(TsOf(st)) /\ c.v \in TsPatterns
                     THEN SomeText(Field(c.v, TsOf(st).c, TsOf(st).sod)) ELSE NoText
    [] c.t = "var" ->
         CASE c.v = "Major" -> NumOpt(st.v.major) [] c.v = "Minor" -> NumOpt(st.v.minor)
           [] c.v = "Patch" -> NumOpt(st.v.patch) [] c.v = "Epoch" -> NumOpt(st.v.epoch)
           [] c.v = "Post" -> NumOpt(st.v.post)   [] c.v = "Dev" -> NumOpt(st.v.dev)
           [] c.v = "PreRelease" -> IF st.v.pre.l = "none" THEN NoText ELSE NumOpt(st.v.pre.n)
           [] c.v = "Distance" -> NumOpt(st.distance)
           [] c.v = "Dirty" -> IF st.dirty = NONE THEN NoText ELSE SomeText(IF st.dirty = 1 THEN T_true ELSE T_false)
           [] c.v = "BumpedBranch" -> st.branch
           [] c.v = "BumpedCommitHash" -> st.hash
           [] c.v = "BumpedCommitHashShort" -> Short(st.hash)
           [] c.v = "BumpedTimestamp" -> st.btsText
           [] c.v = "LastBranch" -> st.lbranch
           [] c.v = "LastCommitHash" -> st.lhash
           [] c.v = "LastCommitHashShort" -> Short(st.lhash)
           [] c.v = "LastTimestamp" -> st.ltsText
\* sanitised value: <<>> means "contributes nothing"
Value(c, st, san) == LET r == RawValue(c, st) IN IF r.s = 0 THEN <<>> ELSE San(san, r.v)

\* an integer-valued component: sanitises with the uint rule to a number the format can
\* hold (SemVer: u64, PEP 440: u32)
U32Text == <<52,50,57,52,57,54,55,50,57,53>>
U64Text == <<49,56,52,52,54,55,52,52,48,55,51,55,48,57,53,53,49,54,49,53>>
FitsText(t, lim) == AllDigits(t) /\ NumCmp(t, lim) <= 0
IntValuedIn(c, st, lim) == LET u == Value(c, st, "uint") IN u # <<>> /\ FitsText(u, lim)
IntValued(c, st) == IntValuedIn(c, st, U32Text)
IntValuedSv(c, st) == IntValuedIn(c, st, U64Text)

\* flatten a sanitised value on '.', dropping empty parts
Parts(t) == IF t = <<>> THEN <<>> ELSE SelectSeq(Split(t, DOT), LAMBDA p : p # <<>>)

\* expansions of the secondary variables: label then value, only when set
LabelText(l) == Txt(l)
Expand(c, st, san) ==
  CASE c.v = "Epoch" -> IF st.v.epoch = NONE THEN <<>> ELSE <<Txt("epoch"), San(san, Dec(st.v.epoch))>>
    [] c.v = "Post"  -> IF st.v.post = NONE THEN <<>> ELSE <<Txt("post"), San(san, Dec(st.v.post))>>
    [] c.v = "Dev"   -> IF st.v.dev = NONE THEN <<>> ELSE <<Txt("dev"), San(san, Dec(st.v.dev))>>
    [] c.v = "PreRelease" -> IF st.v.pre.l = "none" THEN <<>>
                             ELSE <<LabelText(st.v.pre.l)>> \o (IF st.v.pre.n = NONE THEN <<>> ELSE <<San(san, Dec(st.v.pre.n))>>)
IsSecondary(c) == c.t = "var" /\ c.v \in Secondary

\* the pipeline's Normalize step: epoch 0 is dropped
Normalized(st) == IF st.v.epoch = 0 THEN [st EXCEPT !.v.epoch = NONE] ELSE st

\* ---------------------------------------------------------------- SemVer ----
\* core: the first three integer-valued components are major.minor.patch, everything
\* else (in schema order) becomes pre-release identifiers
RECURSIVE SvCore(_, _, _, _, _)
SvCore(core, st, i, nums, pre) ==
  IF i > Len(core) THEN [nums |-> nums, pre |-> pre]
  ELSE IF Len(nums) < 3 /\ IntValuedSv(core[i], st)
       THEN SvCore(core, st, i + 1, Append(nums, Value(core[i], st, "uint")), pre)
       ELSE SvCore(core, st, i + 1, nums, pre \o Parts(Value(core[i], st, "semver")))
RECURSIVE SvExtra(_, _, _)
SvExtra(extra, st, i) ==
  IF i > Len(extra) THEN <<>>
  ELSE (IF IsSecondary(extra[i]) THEN SelectSeq(Expand(extra[i], st, "semver"), LAMBDA p : p # <<>>)
        ELSE Parts(Value(extra[i], st, "semver"))) \o SvExtra(extra, st, i + 1)
RECURSIVE SvBuild(_, _, _)
SvBuild(build, st, i) == IF i > Len(build) THEN <<>> ELSE Parts(Value(build[i], st, "semver")) \o SvBuild(build, st, i + 1)
Pad3(nums) == [k \in 1..3 |-> IF k <= Len(nums) THEN nums[k] ELSE <<ZERO>>]
RenderSemVer(sch, st) ==
  LET c == SvCore(sch.core, st, 1, <<>>, <<>>)
      pre == c.pre \o SvExtra(sch.extra, st, 1)
      bld == SvBuild(sch.build, st, 1)
  IN Join(Pad3(c.nums), <<DOT>>)
     \o (IF pre = <<>> THEN <<>> ELSE <<DASH>> \o Join(pre, <<DOT>>))
     \o (IF bld = <<>> THEN <<>> ELSE <<PLUS>> \o Join(bld, <<DOT>>))

\* --------------------------------------------------------------- PEP 440 ----
RECURSIVE PepCore(_, _, _, _, _)
PepCore(core, st, i, rel, loc) ==
  IF i > Len(core) THEN [rel |-> rel, loc |-> loc]
  ELSE IF IntValued(core[i], st) THEN PepCore(core, st, i + 1, Append(rel, Value(core[i], st, "uint")), loc)
       ELSE PepCore(core, st, i + 1, rel, loc \o Parts(Value(core[i], st, "local")))
RECURSIVE PepExtraLocal(_, _, _)
PepExtraLocal(extra, st, i) ==
  IF i > Len(extra) THEN <<>>
  ELSE (IF IsSecondary(extra[i]) THEN <<>> ELSE Parts(Value(extra[i], st, "local"))) \o PepExtraLocal(extra, st, i + 1)
RECURSIVE PepBuild(_, _, _)
PepBuild(build, st, i) == IF i > Len(build) THEN <<>> ELSE Parts(Value(build[i], st, "local")) \o PepBuild(build, st, i + 1)
Has(extra, name) == \E i \in 1..Len(extra) : IsVar(extra[i], name)
PepLabel(l) == IF l = "alpha" THEN Txt("a") ELSE IF l = "beta" THEN Txt("b") ELSE Txt("rc")
RenderPep440(sch, st) ==
  LET c == PepCore(sch.core, st, 1, <<>>, <<>>)
      rel == IF c.rel = <<>> THEN << <<ZERO>> >> ELSE c.rel
      loc == c.loc \o PepExtraLocal(sch.extra, st, 1) \o PepBuild(sch.build, st, 1)
      ep  == IF Has(sch.extra, "Epoch") /\ st.v.epoch # NONE /\ st.v.epoch # 0 THEN Dec(st.v.epoch) \o <<BANG>> ELSE <<>>
      pre == IF Has(sch.extra, "PreRelease") /\ st.v.pre.l # "none"
             THEN PepLabel(st.v.pre.l) \o (IF st.v.pre.n = NONE THEN <<ZERO>> ELSE Dec(st.v.pre.n)) ELSE <<>>
      post == IF Has(sch.extra, "Post") /\ st.v.post # NONE THEN <<DOT>> \o Txt("post") \o Dec(st.v.post) ELSE <<>>
      dev  == IF Has(sch.extra, "Dev") /\ st.v.dev # NONE THEN <<DOT>> \o Txt("dev") \o Dec(st.v.dev) ELSE <<>>
  IN ep \o Join(rel, <<DOT>>) \o pre \o post \o dev
     \o (IF loc = <<>> THEN <<>> ELSE <<PLUS>> \o Join(loc, <<DOT>>))
=============================================================================
