------------------------------- MODULE MC_Schema -------------------------------
(* Every schema with at most MaxTotal components in total over a 12-symbol        *)
(* component alphabet that includes misplaced and duplicated variables and an      *)
(* unknown timestamp pattern.  The placement rules (ValidSchema, written from the  *)
(* documentation) decide which of them `zerv version --source stdin` must refuse   *)
(* when the schema is the one in effect (C12).                                     *)
EXTENDS Schema, TLC, Json
CONSTANTS MaxTotal, Emit
Syms == { CVar("Major"), CVar("Minor"), CVar("Patch"), CVar("Epoch"), CVar("PreRelease"), CVar("Post"), CVar("Dev"),
          CVar("Distance"), CStr(<<120>>), CUInt(1), CTs("YYYY"), CTs("QQ") }
VARIABLE sch
Init == sch = [core |-> <<>>, extra |-> <<>>, build |-> <<>>]
Total == Len(sch.core) + Len(sch.extra) + Len(sch.build)
Grow(sec) == \E c \in Syms : sch' = [sch EXCEPT ![sec] = Append(@, c)]
Next == /\ Total < MaxTotal
        /\ \/ sch.extra = <<>> /\ sch.build = <<>> /\ Grow("core")
           \/ sch.build = <<>> /\ Grow("extra")
           \/ Grow("build")
Spec == Init /\ [][Next]_sch
\* the rules are monotone: once a prefix is invalid for a placement reason it stays invalid
\* (the only non-monotone rule is "at least one component")
Monotone == (Total > 0 /\ ~ValidSchema(sch)) => [](~ValidSchema(sch))
EmitLine == Emit => PrintT("REPLAY " \o ToJson([ sch |-> sch, valid |-> ValidSchema(sch) ]))
=============================================================================
