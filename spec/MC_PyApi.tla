-------------------------------- MODULE MC_PyApi --------------------------------
(* Table invariant and case generation for C18.  The parameter file (JSON, written by  *)
(* the driver) holds, per function: the sub-command name, the keyword list in signature *)
(* order (name, code points, bool?, a valid value as text), and the option table of the  *)
(* sub-command from the current build.                                                  *)
EXTENDS PyApi, Json, IOUtils
CONSTANTS MaxKw            \* how many keywords a generated call may set (1 or 2)
P == JsonDeserialize(IOEnv.ZV_PARAMS)
Funcs == DOMAIN P
VClasses == {"none", "false", "true", "zero", "valid", "empty", "hostile"}

\* every keyword's flag is an accepted option of the right arity
TableOk ==
  \A f \in Funcs : \A i \in 1..Len(P[f].kws) :
     LET kw == P[f].kws[i]   opt == OptionOf(kw) IN
       \E j \in 1..Len(P[f].opts) : P[f].opts[j].opt = opt /\ P[f].opts[j].takes = ~kw.bool
ASSUME TableOk \/ PrintT("TABLE-VIOLATION")

VARIABLES fn, chosen, done
vars == <<fn, chosen, done>>
Init == fn \in Funcs /\ chosen = <<>> /\ done = FALSE
\* choose keywords in increasing index order, each with a value class that makes sense for it
\* functions with few keywords (check, render) are explored over every combination of up to three keywords
Limit(f) == IF Len(P[f].kws) <= 5 THEN 3 ELSE MaxKw
Pick == /\ ~done /\ Len(chosen) < Limit(fn)
        /\ \E i \in 1..Len(P[fn].kws) : \E vc \in VClasses :
             /\ (IF chosen = <<>> THEN TRUE ELSE chosen[Len(chosen)].i < i)
             /\ (IF vc \in {"true", "false"} THEN P[fn].kws[i].bool ELSE TRUE) /\ (IF vc = "zero" THEN P[fn].kws[i].int ELSE TRUE)
             /\ (IF vc \in {"empty", "hostile"} THEN ~P[fn].kws[i].bool /\ ~P[fn].kws[i].int ELSE TRUE)
             \* a "valid" value: any of the values the keyword's type allows (all literals of an enumerated keyword)
             \* (in combinations only the first keyword ranges over all of them)
             /\ \E j \in 1..(IF vc = "valid" /\ chosen = <<>> THEN Len(P[fn].kws[i].valids) ELSE 1) :
                  chosen' = Append(chosen, [i |-> i, vc |-> vc, j |-> j])
        /\ UNCHANGED <<fn, done>>
Stop == ~done /\ done' = TRUE /\ UNCHANGED <<fn, chosen>>
Next == Pick \/ Stop
Spec == Init /\ [][Next]_vars
ValidOf(c) == P[fn].kws[c.i].valids[c.j]
Pairs == [n \in 1..Len(chosen) |-> [kw |-> P[fn].kws[chosen[n].i], vclass |-> chosen[n].vc, valid |-> ValidOf(chosen[n])]]
EmitLine ==
  done => PrintT("REPLAY " \o ToJson([ fn |-> fn, set |-> [n \in 1..Len(chosen) |-> [kw |-> P[fn].kws[chosen[n].i].name, vc |-> chosen[n].vc,
                                                                           lit |-> IF chosen[n].vc = "valid" THEN ValidOf(chosen[n]) ELSE <<>>]],
                                        argv |-> ExtendArgs(P[fn].base, Pairs) ]))
TableInv == TableOk
=============================================================================
