-------------------------------- MODULE Trace_Env --------------------------------
(* C14: output is a function of the input (arguments, stdin, repository) only.       *)
(* The trace is a sequence of process runs, each tagged with its input; the spec      *)
(* keeps a memo: the first observation of an input fixes the answer, every later run  *)
(* of the same input - under another time zone, locale, working directory, set of     *)
(* unrelated variables, or simply again - must reproduce it.  So that the first       *)
(* observation cannot itself be wrong, runs that carry a calendar instant must start   *)
(* with its UTC date as Calendar.tla gives it.  The wall-clock dev timestamp of dirty  *)
(* / ahead states is masked by the recorder and is the only masked field.             *)
EXTENDS Calendar, TLC, Json, IOUtils
Rec == ndJsonDeserialize(IOEnv.TRACE)
VARIABLES l, memo
Init == l = 1 /\ memo = <<>>               \* memo: sequence indexed by input id; <<>> entries = not seen yet
Seen(i) == i <= Len(memo) /\ memo[i].seen
Extend(m, i, val) == [k \in 1..(IF i > Len(m) THEN i ELSE Len(m)) |->
                        IF k = i THEN [seen |-> TRUE, v |-> val]
                        ELSE IF k <= Len(m) THEN m[k] ELSE [seen |-> FALSE, v |-> <<>>]]
UtcDate(inst) == Field("YYYY", inst.c, inst.sod) \o <<DOT>> \o Field("MM", inst.c, inst.sod) \o <<DOT>> \o Field("DD", inst.c, inst.sod)
Reason(e) ==
  LET obs == <<e.status, e.signal, e.out>> IN
  IF e.signal # 0 THEN "signal"
  ELSE IF e.has_inst /\ e.status = 0 /\ ~StartsWith(e.out, UtcDate(e.inst)) THEN "date-is-not-utc"
  ELSE IF Seen(e.input) /\ memo[e.input].v # obs THEN "output-depends-on-environment"
  ELSE "ok"
Next == /\ l <= Len(Rec)
        /\ LET e == Rec[l]  why == Reason(e) IN
             /\ IF why = "ok" THEN TRUE ELSE PrintT("MISMATCH " \o ToString(l) \o " " \o why)
             /\ memo' = IF Seen(e.input) THEN memo ELSE Extend(memo, e.input, <<e.status, e.signal, e.out>>)
        /\ l' = l + 1
Spec == Init /\ [][Next]_<<l, memo>>
AllConsumed == IF TLCGet("stats").diameter = Len(Rec) + 1 THEN TRUE
               ELSE PrintT("UNCONSUMED " \o ToString(TLCGet("stats").diameter)) /\ FALSE
=============================================================================
