---------------------------- MODULE SemVerGrammar ----------------------------
(* SemVer 2.0.0 (semver.org, "Backus-Naur Form Grammar for Valid SemVer          *)
(* Versions") on code-point sequences, twice: as BNF predicates (declarative),    *)
(* and as a character automaton (used to enumerate viable prefixes and to        *)
(* cross-check the BNF).  zerv additionally accepts one leading 'v'.             *)
EXTENDS Text

IdentChar(c) == IsAlnum(c) \/ c = DASH

\* <numeric identifier> ::= "0" | <positive digit> <digits>?
NumericIdent(t) == IsCanonNum(t)
\* <alphanumeric identifier>: identifier characters with at least one non-digit
AlnumIdent(t) == /\ Len(t) > 0
                 /\ \A i \in 1..Len(t) : IdentChar(t[i])
                 /\ \E i \in 1..Len(t) : ~IsDigit(t[i])
PreIdent(t)   == NumericIdent(t) \/ AlnumIdent(t)
\* <build identifier> ::= <alphanumeric identifier> | <digits>
BuildIdent(t) == Len(t) > 0 /\ \A i \in 1..Len(t) : IdentChar(t[i])

\* decomposition: core [ "-" pre ] [ "+" build ], '+' first, then the first '-'
StripV(s)    == IF Len(s) > 0 /\ s[1] = 118 THEN Tail(s) ELSE s
PlusAt(t)    == IndexOf(t, PLUS)
BeforePlus(t) == IF PlusAt(t) = 0 THEN t ELSE SubSeq(t, 1, PlusAt(t) - 1)
BuildPart(t)  == IF PlusAt(t) = 0 THEN <<>> ELSE SubSeq(t, PlusAt(t) + 1, Len(t))
DashAt(u)    == IndexOf(u, DASH)
CorePart(u)  == IF DashAt(u) = 0 THEN u ELSE SubSeq(u, 1, DashAt(u) - 1)
PrePart(u)   == IF DashAt(u) = 0 THEN <<>> ELSE SubSeq(u, DashAt(u) + 1, Len(u))

ValidCore(c) == LET f == Split(c, DOT) IN Len(f) = 3 /\ \A i \in 1..3 : NumericIdent(f[i])
ValidPre(p)  == LET f == Split(p, DOT) IN \A i \in 1..Len(f) : PreIdent(f[i])
ValidBuild(b) == LET f == Split(b, DOT) IN \A i \in 1..Len(f) : BuildIdent(f[i])

\* <valid semver> without the optional 'v'
IsSemVerBare(t) ==
  LET u == BeforePlus(t) IN
  /\ ValidCore(CorePart(u))
  /\ DashAt(u) # 0 => ValidPre(PrePart(u))
  /\ PlusAt(t) # 0 => ValidBuild(BuildPart(t))
IsSemVer(s) == IsSemVerBare(StripV(s))

\* parsed value (only meaningful when IsSemVer(s))
Parse(s) ==
  LET t == StripV(s)  u == BeforePlus(t)  c == Split(CorePart(u), DOT) IN
  [ major |-> c[1], minor |-> c[2], patch |-> c[3],
    pre   |-> IF DashAt(u) = 0 THEN <<>> ELSE Split(PrePart(u), DOT),
    build |-> IF PlusAt(t) = 0 THEN <<>> ELSE Split(BuildPart(t), DOT) ]

Print(v) ==
  Join(<<v.major, v.minor, v.patch>>, <<DOT>>)
    \o (IF v.pre = <<>> THEN <<>> ELSE <<DASH>> \o Join(v.pre, <<DOT>>))
    \o (IF v.build = <<>> THEN <<>> ELSE <<PLUS>> \o Join(v.build, <<DOT>>))

\* numbers zerv can represent in the three core fields: 0 .. 2^64-1
U64MAX == <<1,8,4,4,6,7,4,4,0,7,3,7,0,9,5,5,1,6,1,5>>
DigitVal(t) == [i \in 1..Len(t) |-> t[i] - 48]
FitsU64(t) == NumCmp(DigitVal(t), U64MAX) <= 0
CoreFits(s) == LET v == Parse(s) IN FitsU64(v.major) /\ FitsU64(v.minor) /\ FitsU64(v.patch)

\* ---------------------------------------------------------------- automaton --
\* q = [st, n]: st is the control state, n the number of completed core fields.
\*  "v?"  start (a 'v' is still allowed)     "c?"  start of a core number
\*  "c0"  core number "0"                     "cn"  core number with non-zero lead
\*  "p?"  start of a pre-release identifier   "p0"  identifier is exactly "0"
\*  "pn"  canonical numeric identifier        "pz"  digits with a leading zero (needs a non-digit)
\*  "pa"  alphanumeric identifier             "b?"  start of a build identifier
\*  "b"   inside a build identifier           "dead"
Q0 == [st |-> "v?", n |-> 0]
Dead == [st |-> "dead", n |-> 0]
AfterCore(q, c) ==            \* a complete core number has been read; next char is c
  IF c = DOT /\ q.n < 2 THEN [st |-> "c?", n |-> q.n + 1]
  ELSE IF q.n = 2 /\ c = DASH THEN [st |-> "p?", n |-> 3]
  ELSE IF q.n = 2 /\ c = PLUS THEN [st |-> "b?", n |-> 3]
  ELSE Dead
AfterPre(q, c) ==             \* a complete pre-release identifier has been read
  IF c = DOT THEN [q EXCEPT !.st = "p?"]
  ELSE IF c = PLUS THEN [q EXCEPT !.st = "b?"]
  ELSE Dead
Step(q, c) ==
  CASE q.st = "v?" -> IF c = 118 THEN [q EXCEPT !.st = "c?"]
                      ELSE IF c = ZERO THEN [q EXCEPT !.st = "c0"]
                      ELSE IF IsDigit(c) THEN [q EXCEPT !.st = "cn"] ELSE Dead
    [] q.st = "c?" -> IF c = ZERO THEN [q EXCEPT !.st = "c0"]
                      ELSE IF IsDigit(c) THEN [q EXCEPT !.st = "cn"] ELSE Dead
    [] q.st = "c0" -> AfterCore(q, c)
    [] q.st = "cn" -> IF IsDigit(c) THEN q ELSE AfterCore(q, c)
    [] q.st = "p?" -> IF c = ZERO THEN [q EXCEPT !.st = "p0"]
                      ELSE IF IsDigit(c) THEN [q EXCEPT !.st = "pn"]
                      ELSE IF IdentChar(c) THEN [q EXCEPT !.st = "pa"] ELSE Dead
    [] q.st = "p0" -> IF IsDigit(c) THEN [q EXCEPT !.st = "pz"]
                      ELSE IF IdentChar(c) THEN [q EXCEPT !.st = "pa"] ELSE AfterPre(q, c)
    [] q.st = "pn" -> IF IsDigit(c) THEN q
                      ELSE IF IdentChar(c) THEN [q EXCEPT !.st = "pa"] ELSE AfterPre(q, c)
    [] q.st = "pz" -> IF IsDigit(c) THEN q
                      ELSE IF IdentChar(c) THEN [q EXCEPT !.st = "pa"] ELSE Dead
    [] q.st = "pa" -> IF IdentChar(c) THEN q ELSE AfterPre(q, c)
    [] q.st = "b?" -> IF IdentChar(c) THEN [q EXCEPT !.st = "b"] ELSE Dead
    [] q.st = "b"  -> IF IdentChar(c) THEN q
                      ELSE IF c = DOT THEN [q EXCEPT !.st = "b?"] ELSE Dead
    [] OTHER -> Dead
Accepting(q) == \/ q.st \in {"c0", "cn"} /\ q.n = 2
                \/ q.st \in {"p0", "pn", "pa", "b"}
RECURSIVE RunFrom(_, _, _)
RunFrom(q, s, i) == IF i > Len(s) THEN q ELSE RunFrom(Step(q, s[i]), s, i + 1)
AutomatonAccepts(s) == Accepting(RunFrom(Q0, s, 1))
=============================================================================
