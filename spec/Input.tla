--------------------------------- MODULE Input ---------------------------------
(* Which input a run of `zerv version` / `zerv flow` reads, and from where               *)
(* (src/cli/app.rs: extract_stdin_once ; InputConfig::apply_smart_source_default ;       *)
(*  the three pipelines).  One action per step the code takes:                           *)
(*    ReadStdin    standard input is read once, before the sub-command is looked at;     *)
(*                 text that is blank after trimming counts as "no stdin"                *)
(*    ChooseSource an explicit --source wins; otherwise stdin if there is some, else git *)
(*    Locate       the git source looks in -C <dir> if given, else in the working        *)
(*                 directory (the stdin and none sources never look at a directory)      *)
(*    Load         stdin: the document must parse; git: the place must be a repository   *)
(*                 with a version tag; none: always loads (all variables unset)          *)
(* A run is described by what is on the command line and around the process:            *)
(*   flag   "unset" | "git" | "stdin" | "none"      (--source)                           *)
(*   stdin  "closed" | "blank" | "document" | "garbage"                                  *)
(*   cwd, dashC  "tagged" | "untagged" | "norepo"   (dashC may also be "absent")         *)
(* and ends in [ok, from] : whether a version is printed and whose version it is.        *)
EXTENDS Naturals
Flags == {"unset", "git", "stdin", "none"}
Stdins == {"closed", "blank", "document", "garbage"}
Places == {"tagged", "untagged", "norepo"}
DashCs == Places \cup {"absent"}

VARIABLES pc, flag, stdin, cwd, dashC, content, src, place, result
vars == <<pc, flag, stdin, cwd, dashC, content, src, place, result>>

Init == /\ pc = "start" /\ flag \in Flags /\ stdin \in Stdins /\ cwd \in Places /\ dashC \in DashCs
        /\ content = "?" /\ src = "?" /\ place = "?" /\ result = [ok |-> FALSE, from |-> "?"]
ReadStdin == /\ pc = "start"
             /\ content' = IF stdin \in {"closed", "blank"} THEN "none" ELSE stdin
             /\ pc' = "choose" /\ UNCHANGED <<flag, stdin, cwd, dashC, src, place, result>>
ChooseSource == /\ pc = "choose"
                /\ src' = IF flag # "unset" THEN flag ELSE IF content # "none" THEN "stdin" ELSE "git"
                /\ pc' = "locate" /\ UNCHANGED <<flag, stdin, cwd, dashC, content, place, result>>
Locate == /\ pc = "locate"
          /\ place' = IF src = "git" THEN (IF dashC # "absent" THEN dashC ELSE cwd) ELSE "nowhere"
          /\ pc' = "load" /\ UNCHANGED <<flag, stdin, cwd, dashC, content, src, result>>
Load == /\ pc = "load"
        /\ result' = CASE src = "stdin" -> [ok |-> content = "document", from |-> "stdin"]
                       [] src = "git" -> [ok |-> place = "tagged", from |-> "git"]
                       [] src = "none" -> [ok |-> TRUE, from |-> "none"]
        /\ pc' = "done" /\ UNCHANGED <<flag, stdin, cwd, dashC, content, src, place>>
Next == ReadStdin \/ ChooseSource \/ Locate \/ Load
Spec == Init /\ [][Next]_vars

\* ---- what a user relies on (checked by TLC on every run of the machine) ----
Done == pc = "done"
\* an explicit --source is obeyed whatever is on stdin
ExplicitWins == Done /\ flag # "unset" => result.from = flag
\* without --source: stdin is used exactly when it carries non-blank text
SmartDefault == Done /\ flag = "unset" => (result.from = "stdin") = (stdin \in {"document", "garbage"})
\* text on stdin never makes a git or none run fail, and never changes whose version is printed
StdinIgnoredUnlessSource == Done /\ src # "stdin" => result = (CASE src = "git" -> [ok |-> place = "tagged", from |-> "git"]
                                                                [] src = "none" -> [ok |-> TRUE, from |-> "none"])
\* the directories matter to the git source only, and -C replaces the working directory
DirectoryOnlyForGit == Done /\ src # "git" => place = "nowhere"
DashCReplacesCwd == Done /\ src = "git" /\ dashC # "absent" => result.ok = (dashC = "tagged")
\* a garbage or blank document is never rendered
NoVersionFromBadStdin == Done /\ result.from = "stdin" /\ result.ok => stdin = "document"
=============================================================================
