--------------------------------- MODULE ToZerv ---------------------------------
(* Conversion of a parsed SemVer / PEP 440 version into a Zerv object              *)
(* (src/version/semver/to_zerv.rs, src/version/pep440/to_zerv.rs).                   *)
(* SemVer: the pre-release identifiers are read left to right by a small machine     *)
(* (the PreReleaseProcessor): a label (epoch, post, dev, or a pre-release label in    *)
(* any of its spellings) opens a variable, the next numeric identifier closes it,     *)
(* anything else becomes a literal component of extra_core; a variable can be used    *)
(* once.  Composed with Render this predicts `zerv render` for arbitrary SemVer       *)
(* input.  Numbers are small integers here (NONE = -1).                               *)
EXTENDS Render

LowerText(t) == LowerS(t)
IsWord(t, w) == LowerText(t) = w
W(str) == CASE str = "epoch" -> <<101,112,111,99,104>> [] str = "post" -> <<112,111,115,116>> [] str = "dev" -> <<100,101,118>>
            [] str = "alpha" -> <<97,108,112,104,97>> [] str = "a" -> <<97>> [] str = "beta" -> <<98,101,116,97>> [] str = "b" -> <<98>>
            [] str = "rc" -> <<114,99>> [] str = "c" -> <<99>> [] str = "preview" -> <<112,114,101,118,105,101,119>> [] str = "pre" -> <<112,114,101>>
\* the secondary variable a text identifier names ("" = none).  epoch / post / dev are matched
\* exactly, the pre-release labels case-insensitively and in all their spellings
VarOfLabel(t) ==
  IF t = W("epoch") THEN "Epoch" ELSE IF t = W("post") THEN "Post" ELSE IF t = W("dev") THEN "Dev"
  ELSE IF \E w \in {"alpha", "a", "beta", "b", "rc", "c", "preview", "pre"} : IsWord(t, W(w)) THEN "PreRelease" ELSE ""
LabelOf(t) == IF IsWord(t, W("alpha")) \/ IsWord(t, W("a")) THEN "alpha"
              ELSE IF IsWord(t, W("beta")) \/ IsWord(t, W("b")) THEN "beta" ELSE "rc"

\* machine state: [v (epoch, pre, post, dev), extra (components), pending ("" | variable name)]
P0 == [v |-> [epoch |-> NONE, pre |-> [l |-> "none", n |-> NONE], post |-> NONE, dev |-> NONE], extra |-> <<>>, pending |-> ""]
InSchema(p, var) == \E i \in 1..Len(p.extra) : IsVar(p.extra[i], var)
IsVarSet(p, var) == \/ InSchema(p, var)
                    \/ CASE var = "PreRelease" -> p.v.pre.l # "none" [] var = "Epoch" -> p.v.epoch # NONE
                         [] var = "Post" -> p.v.post # NONE [] var = "Dev" -> p.v.dev # NONE
SetValue(vv, var, n) == CASE var = "Epoch" -> [vv EXCEPT !.epoch = n] [] var = "Post" -> [vv EXCEPT !.post = n] [] var = "Dev" -> [vv EXCEPT !.dev = n]
                          [] var = "PreRelease" -> IF vv.pre.l # "none" THEN [vv EXCEPT !.pre.n = n] ELSE vv
\* close the pending variable with a value (NONE = without one) and put it into the schema
Finalize(p, n) == [p EXCEPT !.v = SetValue(p.v, p.pending, n), !.extra = Append(p.extra, CVar(p.pending)), !.pending = ""]
AddStr(p, t) == [p EXCEPT !.extra = Append(p.extra, CStr(t))]
FinalizeIfPending(p) == IF p.pending # "" THEN Finalize(p, NONE) ELSE p

\* one identifier: id = [num (BOOLEAN), n (value), t (text)]
StepId(p, id) ==
  IF id.num THEN (IF p.pending # "" THEN Finalize(p, id.n) ELSE [p EXCEPT !.extra = Append(p.extra, CUInt(id.n))])
  ELSE IF p.pending = "PreRelease" THEN AddStr(Finalize(p, NONE), id.t)            \* a label must be followed by its number
  ELSE LET var == VarOfLabel(id.t) IN
       IF var # "" /\ p.pending = var THEN AddStr(Finalize(p, NONE), id.t)         \* "post.post"
       ELSE IF var # "" /\ IsVarSet(p, var) THEN AddStr(FinalizeIfPending(p), id.t) \* a variable is used once
       ELSE LET q == FinalizeIfPending(p) IN
            IF var = "" THEN AddStr(q, id.t)
            ELSE IF var = "PreRelease" THEN [q EXCEPT !.v.pre = [l |-> LabelOf(id.t), n |-> NONE], !.pending = "PreRelease"]
            ELSE [q EXCEPT !.pending = var]
RECURSIVE RunIds(_, _, _)
RunIds(p, ids, i) == IF i > Len(ids) THEN p ELSE RunIds(StepId(p, ids[i]), ids, i + 1)
\* at the end a pending variable enters the schema without a value
Finish(p) == IF p.pending # "" THEN [p EXCEPT !.extra = Append(p.extra, CVar(p.pending)), !.pending = ""] ELSE p

\* sv = [major, minor, patch (integers), pre, build (sequences of identifiers)]
SemVerToZerv(sv) ==
  LET p == Finish(RunIds(P0, sv.pre, 1)) IN
  [ sch |-> [ core |-> StandardCore, extra |-> p.extra,
              build |-> [i \in 1..Len(sv.build) |-> IF sv.build[i].num THEN CUInt(sv.build[i].n) ELSE CStr(sv.build[i].t)] ],
    v |-> [ epoch |-> p.v.epoch, major |-> sv.major, minor |-> sv.minor, patch |-> sv.patch, pre |-> p.v.pre, post |-> p.v.post, dev |-> p.v.dev ] ]

NoT == [s |-> 0, v |-> <<>>]
StOf(vv) == [ v |-> vv, distance |-> NONE, dirty |-> NONE, branch |-> NoT, hash |-> NoT, custom |-> <<>>, bts |-> NoInstant, btsText |-> NoT,
              lts |-> NoInstant, ltsText |-> NoT, lbranch |-> NoT, lhash |-> NoT ]
\* `zerv render <semver>` in both output formats
RenderedSemVer(sv) == LET z == SemVerToZerv(sv) IN RenderSemVer(z.sch, StOf(z.v))
RenderedPep440(sv) == LET z == SemVerToZerv(sv) IN RenderPep440(z.sch, StOf(z.v))

IdText(id) == IF id.num THEN Dec(id.n) ELSE id.t

\* ---- PEP 440 -> Zerv ----
\* pv = [epoch (0 = none), rel (sequence of integers), pre ([l, n] or none), post, dev (NONE = absent),
\*       local (sequence of [num, n, t] segments)]
PepToZerv(pv) ==
  [ sch |-> [ core  |-> StandardCore \o [i \in 1..(IF Len(pv.rel) > 3 THEN Len(pv.rel) - 3 ELSE 0) |-> CUInt(pv.rel[i + 3])],
              extra |-> ExtraTier(3),
              build |-> [i \in 1..Len(pv.local) |-> IF pv.local[i].num THEN CUInt(pv.local[i].n) ELSE CStr(pv.local[i].t)] ],
    v |-> [ epoch |-> IF pv.epoch > 0 THEN pv.epoch ELSE NONE,
            major |-> pv.rel[1], minor |-> IF Len(pv.rel) >= 2 THEN pv.rel[2] ELSE NONE, patch |-> IF Len(pv.rel) >= 3 THEN pv.rel[3] ELSE NONE,
            pre |-> pv.pre, post |-> pv.post, dev |-> pv.dev ] ]
PepRenderedSemVer(pv) == LET z == PepToZerv(pv) IN RenderSemVer(z.sch, StOf(z.v))
PepRenderedPep440(pv) == LET z == PepToZerv(pv) IN RenderPep440(z.sch, StOf(z.v))
PepLabel440(l) == IF l = "alpha" THEN <<97>> ELSE IF l = "beta" THEN <<98>> ELSE <<114, 99>>
\* the normal-form text of a PEP 440 value
PepString(pv) ==
  (IF pv.epoch > 0 THEN Dec(pv.epoch) \o <<BANG>> ELSE <<>>)
  \o Join([i \in 1..Len(pv.rel) |-> Dec(pv.rel[i])], <<DOT>>)
  \o (IF pv.pre.l = "none" THEN <<>> ELSE PepLabel440(pv.pre.l) \o Dec(pv.pre.n))
  \o (IF pv.post = NONE THEN <<>> ELSE <<DOT>> \o W("post") \o Dec(pv.post))
  \o (IF pv.dev = NONE THEN <<>> ELSE <<DOT>> \o W("dev") \o Dec(pv.dev))
  \o (IF pv.local = <<>> THEN <<>> ELSE <<PLUS>> \o Join([i \in 1..Len(pv.local) |-> IdText(pv.local[i])], <<DOT>>))

\* the text of a SemVer value
SemVerString(sv) == Join(<<Dec(sv.major), Dec(sv.minor), Dec(sv.patch)>>, <<DOT>>)
   \o (IF sv.pre = <<>> THEN <<>> ELSE <<DASH>> \o Join([i \in 1..Len(sv.pre) |-> IdText(sv.pre[i])], <<DOT>>))
   \o (IF sv.build = <<>> THEN <<>> ELSE <<PLUS>> \o Join([i \in 1..Len(sv.build) |-> IdText(sv.build[i])], <<DOT>>))
=============================================================================
