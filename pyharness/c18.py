#!/usr/bin/env python3
"""C18 harness (system python3, stdlib only).

  params <flags.json> <out.json>   introspect python/zerv (signatures, annotations) -> parameter file for TLC
  replay <cases.jsonl> <zerv-bin> <report.json>   run the TLC-generated calls through the real module
"""
import inspect
import json
import subprocess
import sys

sys.path.insert(0, "/repo/python")
import zerv  # noqa: E402

FUNCS = {"version": [], "flow": [], "check": ["1.2.3"], "render": ["1.2.3-alpha.1"]}
# a value each keyword accepts (by keyword name; functions share names)
VALID = {
    "source": "none", "stdin": None, "input_format": "semver", "repo_path": ".", "output_format": "pep440",
    "output_template": "{{ major }}.{{ minor }}", "output_prefix": "v", "schema": "standard-base-prerelease-post-dev",
    "schema_ron": "(core:[var(Major),var(Minor),var(Patch)],extra_core:[var(Post)],build:[])", "tag_version": "2.3.4-rc.1",
    "distance": 3, "bumped_branch": "feature/x", "bumped_commit_hash": "abcdef0123", "bumped_timestamp": 1700000000,
    "major": 7, "minor": 8, "patch": 9, "epoch": 2, "post": 5, "dev": 6, "pre_release_label": "beta", "pre_release_num": 4,
    "custom": "{\"k\":1}", "core": "0=5", "extra_core": "0=2", "build": "0=1", "bump_major": 2, "bump_minor": 2, "bump_patch": 2,
    "bump_post": 2, "bump_dev": 2, "bump_pre_release_num": 2, "bump_epoch": 2, "bump_pre_release_label": "rc",
    "bump_core": "0", "bump_extra_core": "0", "bump_build": "0", "post_mode": "tag",
    "branch_rules": "[(pattern:\"main\",pre_release_label:rc,pre_release_num:1,post_mode:tag)]", "hash_branch_len": 7, "format": "semver",
}
# arguments that make a call runnable on its own (no repository is involved)
CONTEXT = {"version": {"source": "none", "tag_version": "1.2.3-alpha.1.post.2"}, "flow": {"source": "none", "tag_version": "1.2.3", "distance": 2, "bumped_branch": "main"},
           "check": {}, "render": {}}


def cps(s):
    return [ord(c) for c in s]


def text(a):
    return "".join(chr(c) for c in a)


def literal_values(func, name):
    """the values of a typing.Literal annotation (possibly inside Optional / a union), as strings"""
    import typing
    try:
        hint = typing.get_type_hints(func).get(name)
    except Exception:  # noqa: BLE001
        return []
    out = []

    def walk(h):
        if typing.get_origin(h) is typing.Literal:
            out.extend(str(a) for a in typing.get_args(h))
        else:
            for a in typing.get_args(h):
                walk(a)
    walk(hint)
    return out


def params(flags_path, out_path):
    flags = json.load(open(flags_path))
    out = {}
    for fn, pos in FUNCS.items():
        sig = inspect.signature(getattr(zerv, fn))
        kws = []
        for name, p in sig.parameters.items():
            if p.kind is not inspect.Parameter.KEYWORD_ONLY or name == "stdin":
                continue
            ann = str(p.annotation)
            is_bool = ann.startswith("bool")
            v = VALID.get(name, "x")
            # every value an enumerated (Literal) keyword allows: a wrapper may treat ONE of them specially
            lits = literal_values(getattr(zerv, fn), name)
            valids = [str(v)] + [x for x in lits if x != str(v)]
            kws.append({"name": name, "text": cps(name), "bool": is_bool, "int": ann.startswith("int"),
                        "valid": cps("true" if is_bool else str(v)), "valids": [cps("true")] if is_bool else [cps(x) for x in valids]})
        out[fn] = {"base": [cps(fn)] + [cps(x) for x in pos], "kws": kws,
                   "opts": [{"opt": cps(o["opt"]), "takes": o["takes"]} for o in flags[fn]]}
    json.dump(out, open(out_path, "w"))
    print(json.dumps({f: len(v["kws"]) for f, v in out.items()}))


def value_of(name, vc, is_bool, lit=None):
    if vc == "valid" and lit is not None and not is_bool:
        return lit
    return value_of_class(name, vc, is_bool)


def value_of_class(name, vc, is_bool):
    if vc == "none":
        return None
    if vc == "false":
        return False
    if vc == "true":
        return True
    if vc == "zero":
        return 0
    if vc == "empty":
        return ""
    if vc == "hostile":
        return "-\u00e9 x\ny"
    return True if is_bool else VALID.get(name, "x")


def replay(cases_path, zerv_bin, report_path):
    sigs = {fn: inspect.signature(getattr(zerv, fn)) for fn in FUNCS}
    mismatches, n, nontrivial = [], 0, 0
    samples = []
    captured = []
    real_run = zerv._run_zerv_command

    def recorder(args, stdin=None):
        captured.append(list(args))
        return ""

    for line in open(cases_path):
        case = json.loads(line)
        fn = case["fn"]
        # TLC prints the empty sequence as an empty JSON object
        want = [text(a) if isinstance(a, list) else "" for a in case["argv"]]
        kwargs = {}
        for s in case["set"]:
            is_bool = str(sigs[fn].parameters[s["kw"]].annotation).startswith("bool")
            lit = text(s["lit"]) if isinstance(s.get("lit"), list) and s["lit"] else None
            val = value_of(s["kw"], s["vc"], is_bool, lit)
            if s["vc"] == "valid" and lit is not None and str(sigs[fn].parameters[s["kw"]].annotation).startswith("int"):
                val = int(lit)
            kwargs[s["kw"]] = val
        pos = FUNCS[fn]
        n += 1
        if any(v not in (None, False) for v in kwargs.values()):
            nontrivial += 1
        # (a) the argv the module builds
        captured.clear()
        zerv._run_zerv_command = recorder
        try:
            getattr(zerv, fn)(*pos, **kwargs)
            got = captured[0] if captured else ["<no command was run>"]
        except Exception as e:  # noqa: BLE001
            got = ["<exception %r>" % e]
        finally:
            zerv._run_zerv_command = real_run
        if got != want:
            mismatches.append({"key": "C18:argv", "call": "%s(%s)" % (fn, kwargs), "expected": want, "observed": got})
            continue
        if len(samples) < 5 and kwargs:
            samples.append({"call": "zerv.%s(**%s)" % (fn, kwargs), "argv": want})
        # (b) end to end with the built binary: return value = stripped stdout of the equivalent command line
        ctx = {k: v for k, v in CONTEXT[fn].items() if k not in kwargs}
        full = dict(ctx, **kwargs)
        captured.clear()
        zerv._run_zerv_command = recorder
        getattr(zerv, fn)(*pos, **full)
        zerv._run_zerv_command = real_run
        if not captured:
            # the call did not reach the command runner at all (an answer remembered from an earlier call?)
            mismatches.append({"key": "C18:argv", "call": "%s(%s)" % (fn, full), "expected": "a command line is run", "observed": "no command was run"})
            continue
        argv = captured[0]
        direct = subprocess.run([zerv_bin] + argv, capture_output=True, text=True, stdin=subprocess.DEVNULL)
        zerv.find_zerv_bin = lambda: zerv_bin
        zerv.__dict__["find_zerv_bin"] = lambda: zerv_bin
        try:
            ret = getattr(zerv, fn)(*pos, **full)
            raised = False
        except RuntimeError:
            ret, raised = None, True
        except Exception as e:  # noqa: BLE001
            mismatches.append({"key": "C18:unexpected-exception", "call": "%s(%s)" % (fn, full), "observed": repr(e)})
            continue
        if direct.returncode != 0:
            if not raised:
                mismatches.append({"key": "C18:failure-not-raised", "call": "%s(%s)" % (fn, full), "argv": argv, "stderr": direct.stderr[:300], "returned": ret})
        else:
            import re
            mask = lambda s: re.sub(r"\b1[0-9]{9}\b", lambda m: "<NOW>" if abs(int(m.group()) - __import__("time").time()) < 120 else m.group(), s)
            if raised or mask(ret) != mask(direct.stdout.strip()):
                mismatches.append({"key": "C18:return-value", "call": "%s(%s)" % (fn, full), "argv": argv,
                                   "expected": direct.stdout.strip()[:300], "observed": "raised" if raised else ret[:300]})
    # calls that must fail: a failing command raises instead of returning text
    zerv.__dict__["find_zerv_bin"] = lambda: zerv_bin
    must_fail = [("check", ["not-a-version"], {}), ("check", ["1.2.3"], {"format": "pep441"}),
                 ("version", [], {"source": "none", "tag_version": "1.2.3", "dirty": True, "no_dirty": True}),
                 ("version", [], {"source": "none", "tag_version": "garbage!"}), ("render", ["1.2"], {"input_format": "semver"}),
                 ("flow", [], {"source": "none", "tag_version": "1.2.3", "hash_branch_len": 11}),
                 ("version", [], {"source": "stdin", "stdin": "(not ron"}), ("version", [], {"source": "none", "tag_version": "1.2.3", "core": "9=1"})]
    # stdin is handed to the command: the same document piped to the binary directly
    ron = ("(schema:(core:[var(Major),var(Minor),var(Patch)],extra_core:[var(Epoch),var(PreRelease),var(Post),var(Dev)],build:[var(BumpedBranch)]),"
           "vars:(major:Some(4),minor:Some(5),patch:Some(6),post:Some(7),bumped_branch:Some(\"Gr\u00f6\u00dfe/x\")))")
    for of in ("semver", "pep440", "zerv"):
        n += 1
        nontrivial += 1
        direct = subprocess.run([zerv_bin, "version", "--source", "stdin", "--output-format", of], input=ron, capture_output=True, text=True)
        try:
            ret = zerv.version(source="stdin", stdin=ron, output_format=of)
        except Exception as e:  # noqa: BLE001
            ret = "<exception %r>" % e
        if direct.returncode != 0 or ret != direct.stdout.strip():
            mismatches.append({"key": "C18:return-value", "call": "version(source='stdin', stdin=<ron>, output_format=%r)" % of,
                               "expected": direct.stdout.strip()[:300], "observed": ret[:300]})
    # stdin together with another source: the wrapper hands both on unchanged, so the result is what the
    # same command line gives with the same stdin (only `-s stdin` reads it)
    import os
    import tempfile
    tmp = tempfile.mkdtemp(prefix="zv-c18-")
    genv = dict(os.environ, GIT_CONFIG_GLOBAL="/dev/null", GIT_CONFIG_NOSYSTEM="1", GIT_AUTHOR_NAME="zv", GIT_AUTHOR_EMAIL="zv@example.invalid",
                GIT_COMMITTER_NAME="zv", GIT_COMMITTER_EMAIL="zv@example.invalid")
    for cmd in (["init", "-q", "-b", "main"], ["commit", "-q", "--allow-empty", "-m", "c1"], ["tag", "v1.2.3"]):
        subprocess.run(["git"] + cmd, cwd=tmp, env=genv, check=True, stdin=subprocess.DEVNULL, capture_output=True)
    combos = [({"source": "none", "tag_version": "1.2.3"}, ["version", "-s", "none", "--tag-version", "1.2.3"]),
              ({"source": "git", "repo_path": tmp}, ["version", "-s", "git", "-C", tmp]),
              ({"repo_path": tmp, "source": "git", "output_format": "pep440"}, ["version", "-s", "git", "-C", tmp, "--output-format", "pep440"]),
              ({"source": "stdin", "major": 9}, ["version", "-s", "stdin", "--major", "9"])]
    for kw, argv in combos:
        for doc in (ron, "   \n", ""):
            n += 1
            nontrivial += 1
            direct = subprocess.run([zerv_bin] + argv, input=doc, capture_output=True, text=True)
            try:
                ret, raised = zerv.version(stdin=doc, **kw), False
            except RuntimeError:
                ret, raised = None, True
            except Exception as e:  # noqa: BLE001
                ret, raised = "<exception %r>" % e, False
            ok = raised if direct.returncode != 0 else (not raised and ret == direct.stdout.strip())
            if not ok:
                mismatches.append({"key": "C18:return-value", "call": "version(stdin=%r, **%r)" % (doc[:20], kw), "argv": argv,
                                   "expected": ("raises" if direct.returncode != 0 else direct.stdout.strip()[:300]),
                                   "observed": "raised" if raised else ret[:300]})
    # repeated identical calls in one process: each call is the command line run NOW, not a remembered answer -
    # (i) the repository changes between two calls, (ii) the template prints the wall clock
    import time
    def git(*cmd):
        subprocess.run(["git"] + list(cmd), cwd=tmp, env=genv, check=True, stdin=subprocess.DEVNULL, capture_output=True)
    steps = [lambda: None, lambda: (git("commit", "-q", "--allow-empty", "-m", "c2"), git("tag", "v1.3.0")),
             lambda: git("commit", "-q", "--allow-empty", "-m", "c3"), lambda: git("tag", "-d", "v1.3.0")]
    for fn, kw, argv in (("version", {"source": "git", "repo_path": tmp}, ["version", "-s", "git", "-C", tmp]),
                         ("flow", {"repo_path": tmp, "schema": "standard-base-prerelease-post"}, ["flow", "-C", tmp, "--schema", "standard-base-prerelease-post"])):
        for step in steps:
            step()
            n += 1
            nontrivial += 1
            direct = subprocess.run([zerv_bin] + argv, capture_output=True, text=True, stdin=subprocess.DEVNULL)
            try:
                ret, raised = getattr(zerv, fn)(**kw), False
            except RuntimeError:
                ret, raised = None, True
            ok = raised if direct.returncode != 0 else (not raised and ret == direct.stdout.strip())
            if not ok:
                mismatches.append({"key": "C18:return-value", "call": "%s(**%r) called again after the repository changed" % (fn, kw), "argv": argv,
                                   "expected": ("raises" if direct.returncode != 0 else direct.stdout.strip()[:300]),
                                   "observed": "raised" if raised else ret[:300]})
        git("tag", "v1.3.0", "HEAD~1")
        git("reset", "-q", "--hard", "HEAD~2")
        git("tag", "-d", "v1.3.0")
    clock = "{{ current_timestamp }}"
    for fn, pos, kw in (("render", ["1.2.3"], {"output_template": clock}), ("version", [], {"source": "none", "tag_version": "1.2.3", "output_template": clock}),
                        ("flow", [], {"source": "none", "tag_version": "1.2.3", "output_template": clock})):
        for rep in range(2):
            n += 1
            nontrivial += 1
            t0 = int(time.time())
            try:
                ret = getattr(zerv, fn)(*pos, **kw)
            except Exception as e:  # noqa: BLE001
                ret = "<exception %r>" % e
            t1 = int(time.time())
            if not (ret.isdigit() and t0 <= int(ret) <= t1):
                mismatches.append({"key": "C18:return-value", "call": "%s(%s, **%r), call %d in this process" % (fn, pos, kw, rep + 1),
                                   "expected": "the wall clock of this call, %d..%d" % (t0, t1), "observed": ret[:100]})
            time.sleep(1.05)
    import shutil
    shutil.rmtree(tmp, ignore_errors=True)
    for fn, pos, kw in must_fail:
        n += 1
        try:
            ret = getattr(zerv, fn)(*pos, **kw)
            mismatches.append({"key": "C18:failure-not-raised", "call": "%s(%s, %s)" % (fn, pos, kw), "returned": ret[:200]})
        except RuntimeError:
            pass
        except Exception as e:  # noqa: BLE001
            mismatches.append({"key": "C18:unexpected-exception", "call": "%s(%s, %s)" % (fn, pos, kw), "observed": repr(e)})
    json.dump({"evaluations": n, "nontrivial": nontrivial, "mismatches": mismatches[:200], "mismatch_count": len(mismatches), "samples": samples},
              open(report_path, "w"))
    print(json.dumps({"evaluations": n, "mismatch_count": len(mismatches)}))


if __name__ == "__main__":
    if sys.argv[1] == "params":
        params(sys.argv[2], sys.argv[3])
    else:
        replay(sys.argv[2], sys.argv[3], sys.argv[4])
